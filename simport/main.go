// simport copies the Go sources of /repo's *current working tree* into a
// scratch directory and applies mechanical, position-based text edits that put
// every source of nondeterminism behind the zsim runtime (see DESIGN.md §3.1).
//
// Exit status: 0 ok, 2 infrastructure problem (missing seam function, parse
// error). It never reports a property violation.
package main

import (
	"encoding/json"
	"flag"
	"fmt"
	"go/ast"
	"go/parser"
	"go/token"
	"io/fs"
	"os"
	"path/filepath"
	"sort"
	"strconv"
	"strings"
)

const zsimPath = "github.com/junegunn/fzf/src/zsim"

type seam struct {
	File string `json:"file"`
	Func string `json:"func"` // "Recv.Name" or "Name"
	Code string `json:"code"` // $R = receiver name
	Opt  bool   `json:"optional"`
}

type replaceRule struct {
	File string `json:"file"`
	Old  string `json:"old"`
	New  string `json:"new"`
}

type config struct {
	Imports  map[string]map[string]string `json:"imports"` // file glob ("*" or rel path) -> import path -> "name path"
	Seams    []seam                       `json:"seams"`
	Replace  []replaceRule                `json:"replace"`
	ChanLike []string                     `json:"chan_like"` // identifier suffixes treated as channels in range statements
}

type edit struct {
	pos, end int
	text     string
	seq      int
}

type fileCtx struct {
	rel     string
	src     []byte
	fset    *token.FileSet
	f       *ast.File
	edits   []edit
	useZsim bool
	report  *report
	goFuncs map[string]bool
}

type report struct {
	Yields       int      `json:"yields"`
	GoSites      int      `json:"go_sites"`
	Selects      int      `json:"selects"`
	SelectsSkip  []string `json:"selects_unhandled"`
	MailboxRange int      `json:"mailbox_ranges"`
	OtherMapRng  []string `json:"other_range_sites"`
	Seams        []string `json:"seams_applied"`
	SeamsMissing []string `json:"seams_missing_optional"`
	Replaced     []string `json:"replaced"`
	ReplaceMiss  []string `json:"replace_not_found"`
	Begins       []string `json:"begin_funcs"`
	ElseIfComm   []string `json:"else_if_comm_unhandled"`
	Files        int      `json:"files"`
}

func die(format string, a ...any) {
	fmt.Fprintf(os.Stderr, "simport: "+format+"\n", a...)
	os.Exit(2)
}

func (c *fileCtx) off(p token.Pos) int { return c.fset.Position(p).Offset }
func (c *fileCtx) line(p token.Pos) int {
	return c.fset.Position(p).Line
}
func (c *fileCtx) site(p token.Pos) string {
	return filepath.Base(c.rel) + ":" + strconv.Itoa(c.line(p))
}
func (c *fileCtx) text(n ast.Node) string { return string(c.src[c.off(n.Pos()):c.off(n.End())]) }
func (c *fileCtx) insert(at int, text string) {
	c.edits = append(c.edits, edit{at, at, text, len(c.edits)})
}
func (c *fileCtx) replace(from, to int, text string) {
	c.edits = append(c.edits, edit{from, to, text, len(c.edits)})
}

// shallowComm reports whether the statement itself (not nested blocks or
// function literals) performs a communicating operation.
func shallowComm(st ast.Stmt) bool {
	found := false
	var visit func(n ast.Node) bool
	visit = func(n ast.Node) bool {
		if found || n == nil {
			return false
		}
		switch x := n.(type) {
		case *ast.BlockStmt, *ast.FuncLit, *ast.SelectStmt, *ast.CaseClause, *ast.CommClause:
			return false
		case *ast.SendStmt:
			found = true
			return false
		case *ast.UnaryExpr:
			if x.Op == token.ARROW {
				found = true
				return false
			}
		case *ast.CallExpr:
			switch fn := x.Fun.(type) {
			case *ast.Ident:
				if fn.Name == "close" || fn.Name == "cancel" {
					found = true
					return false
				}
			case *ast.SelectorExpr:
				if id, ok := fn.X.(*ast.Ident); ok && id.Name == "atomic" {
					found = true
					return false
				}
				switch fn.Sel.Name {
				case "CompareAndSwap", "Load", "Store", "Swap":
					found = true
					return false
				}
			}
		}
		return true
	}
	switch x := st.(type) {
	case *ast.GoStmt, *ast.SelectStmt:
		return false // handled separately
	case *ast.LabeledStmt:
		return shallowComm(x.Stmt)
	case *ast.IfStmt:
		if x.Init != nil {
			ast.Inspect(x.Init, visit)
		}
		ast.Inspect(x.Cond, visit)
		return found
	case *ast.ForStmt:
		if x.Init != nil {
			ast.Inspect(x.Init, visit)
		}
		if x.Cond != nil {
			ast.Inspect(x.Cond, visit)
		}
		return found
	case *ast.RangeStmt:
		ast.Inspect(x.X, visit)
		return found
	case *ast.SwitchStmt:
		if x.Init != nil {
			ast.Inspect(x.Init, visit)
		}
		if x.Tag != nil {
			ast.Inspect(x.Tag, visit)
		}
		return found
	case *ast.TypeSwitchStmt:
		if x.Init != nil {
			ast.Inspect(x.Init, visit)
		}
		ast.Inspect(x.Assign, visit)
		return found
	case *ast.BlockStmt:
		return false
	case *ast.DeferStmt:
		// `defer close(ch)`-style: the call runs at return; a yield here is harmless
		// but pointless. Arguments are evaluated now.
		for _, a := range x.Call.Args {
			ast.Inspect(a, visit)
		}
		return found
	}
	ast.Inspect(st, visit)
	return found
}

func (c *fileCtx) isChanLike(e ast.Expr, suffixes []string) bool {
	var name string
	switch x := e.(type) {
	case *ast.Ident:
		name = x.Name
	case *ast.SelectorExpr:
		name = x.Sel.Name
	default:
		return false
	}
	l := strings.ToLower(name)
	for _, s := range suffixes {
		if strings.HasSuffix(l, s) {
			return true
		}
	}
	return false
}

func (c *fileCtx) stmtList(list []ast.Stmt, cfg *config) {
	for _, st := range list {
		inner := st
		if l, ok := st.(*ast.LabeledStmt); ok {
			inner = l.Stmt
		}
		switch x := inner.(type) {
		case *ast.GoStmt:
			c.insert(c.off(st.Pos()), fmt.Sprintf("zsim.PreGo(%q); ", c.site(st.Pos())))
			c.useZsim = true
			c.report.GoSites++
			switch fn := x.Call.Fun.(type) {
			case *ast.FuncLit:
				c.insert(c.off(fn.Body.Lbrace)+1, " zsim.Begin(); ")
			case *ast.Ident:
				c.goFuncs[fn.Name] = true
			case *ast.SelectorExpr:
				c.goFuncs[fn.Sel.Name] = true
			}
		case *ast.SelectStmt:
			c.rewriteSelect(st, x)
		default:
			if shallowComm(st) {
				c.insert(c.off(st.Pos()), fmt.Sprintf("zsim.Yield(%q); ", c.site(st.Pos())))
				c.useZsim = true
				c.report.Yields++
			}
		}
		if r, ok := inner.(*ast.RangeStmt); ok {
			c.rangeStmt(r, cfg)
		}
		if ifs, ok := inner.(*ast.IfStmt); ok {
			for e := ifs.Else; e != nil; {
				if ei, ok := e.(*ast.IfStmt); ok {
					if shallowComm(ei) {
						c.report.ElseIfComm = append(c.report.ElseIfComm, c.site(ei.Pos()))
					}
					e = ei.Else
				} else {
					break
				}
			}
		}
	}
}

func (c *fileCtx) rangeStmt(r *ast.RangeStmt, cfg *config) {
	// mailbox iteration: `for k, v := range *events`
	if star, ok := r.X.(*ast.StarExpr); ok {
		if id, ok := star.X.(*ast.Ident); ok && id.Name == "events" && r.Tok == token.DEFINE {
			key := "_"
			if r.Key != nil {
				key = c.text(r.Key)
			}
			hdr := ""
			if key == "_" {
				key = "zsimK"
			}
			hdr = fmt.Sprintf("for _, %s := range zsim.Keys(*events) {", key)
			if r.Value != nil && c.text(r.Value) != "_" {
				hdr += fmt.Sprintf(" %s, zsimOK := (*events)[%s]; if !zsimOK { continue };", c.text(r.Value), key)
			} else {
				hdr += fmt.Sprintf(" if _, zsimOK := (*events)[%s]; !zsimOK { continue };", key)
			}
			c.replace(c.off(r.Pos()), c.off(r.Body.Lbrace)+1, hdr)
			c.useZsim = true
			c.report.MailboxRange++
			return
		}
	}
	if c.isChanLike(r.X, cfg.ChanLike) {
		// range over a channel: one receive per iteration
		c.insert(c.off(r.Body.Lbrace)+1, fmt.Sprintf(" zsim.Yield(%q); ", c.site(r.Pos())+"r"))
		c.useZsim = true
		c.report.Yields++
		return
	}
}

func (c *fileCtx) rewriteSelect(st ast.Stmt, sel *ast.SelectStmt) {
	site := c.site(sel.Pos())
	if _, labeled := st.(*ast.LabeledStmt); labeled {
		c.report.SelectsSkip = append(c.report.SelectsSkip, site+" (labeled)")
		return
	}
	type cl struct {
		cc   *ast.CommClause
		expr string
		decl string
	}
	var cls []cl
	hasDefault := false
	declared := map[string]bool{}
	for _, s := range sel.Body.List {
		cc := s.(*ast.CommClause)
		if cc.Comm == nil {
			hasDefault = true
			cls = append(cls, cl{cc: cc})
			continue
		}
		var e, d string
		switch m := cc.Comm.(type) {
		case *ast.SendStmt:
			e = fmt.Sprintf("zsim.Send(%s, %s)", c.text(m.Chan), c.text(m.Value))
		case *ast.ExprStmt:
			u, ok := m.X.(*ast.UnaryExpr)
			if !ok || u.Op != token.ARROW {
				c.report.SelectsSkip = append(c.report.SelectsSkip, site+" (expr)")
				return
			}
			e = fmt.Sprintf("zsim.Recv(%s, nil)", c.text(u.X))
		case *ast.AssignStmt:
			if len(m.Rhs) != 1 {
				c.report.SelectsSkip = append(c.report.SelectsSkip, site+" (rhs)")
				return
			}
			u, ok := m.Rhs[0].(*ast.UnaryExpr)
			if !ok || u.Op != token.ARROW {
				c.report.SelectsSkip = append(c.report.SelectsSkip, site+" (assign)")
				return
			}
			ch := c.text(u.X)
			names := make([]string, len(m.Lhs))
			for i, l := range m.Lhs {
				names[i] = c.text(l)
			}
			if m.Tok == token.DEFINE {
				for i, n := range names {
					if n == "_" {
						continue
					}
					if declared[n] {
						c.report.SelectsSkip = append(c.report.SelectsSkip, site+" (dup decl "+n+")")
						return
					}
					declared[n] = true
					if i == 0 {
						d += fmt.Sprintf("%s := zsim.Zero(%s); _ = %s; ", n, ch, n)
					} else {
						d += fmt.Sprintf("%s := false; _ = %s; ", n, n)
					}
				}
			}
			ref := func(n string) string {
				if n == "_" {
					return "nil"
				}
				return "&" + n
			}
			if len(names) == 1 {
				e = fmt.Sprintf("zsim.Recv(%s, %s)", ch, ref(names[0]))
			} else {
				e = fmt.Sprintf("zsim.Recv2(%s, %s, %s)", ch, ref(names[0]), ref(names[1]))
			}
		default:
			c.report.SelectsSkip = append(c.report.SelectsSkip, site+" (comm kind)")
			return
		}
		cls = append(cls, cl{cc: cc, expr: e, decl: d})
	}
	var decls, exprs string
	idx := 0
	for _, k := range cls {
		if k.cc.Comm == nil {
			c.replace(c.off(k.cc.Pos()), c.off(k.cc.Colon)+1, "case -1:")
			continue
		}
		decls += k.decl
		exprs += ", " + k.expr
		c.replace(c.off(k.cc.Pos()), c.off(k.cc.Colon)+1, fmt.Sprintf("case %d:", idx))
		idx++
	}
	hdr := fmt.Sprintf("{ %sswitch zsim.Select(%q, %v%s) {", decls, site, hasDefault, exprs)
	c.replace(c.off(sel.Pos()), c.off(sel.Body.Lbrace)+1, hdr)
	c.insert(c.off(sel.Body.Rbrace)+1, " }")
	c.useZsim = true
	c.report.Selects++
}

func (c *fileCtx) walk(cfg *config) {
	ast.Inspect(c.f, func(n ast.Node) bool {
		switch x := n.(type) {
		case *ast.BlockStmt:
			c.stmtList(x.List, cfg)
		case *ast.CaseClause:
			c.stmtList(x.Body, cfg)
		case *ast.CommClause:
			c.stmtList(x.Body, cfg)
		}
		return true
	})
}

func funcKey(fd *ast.FuncDecl) (key, recvName string) {
	if fd.Recv == nil || len(fd.Recv.List) == 0 {
		return fd.Name.Name, ""
	}
	t := fd.Recv.List[0].Type
	if s, ok := t.(*ast.StarExpr); ok {
		t = s.X
	}
	tn := ""
	if id, ok := t.(*ast.Ident); ok {
		tn = id.Name
	}
	if len(fd.Recv.List[0].Names) > 0 {
		recvName = fd.Recv.List[0].Names[0].Name
	}
	return tn + "." + fd.Name.Name, recvName
}

func main() {
	repo := flag.String("repo", "/repo", "repository root")
	sim := flag.String("sim", "/verif/sim", "zsim sources")
	harness := flag.String("harness", "/verif/harness", "harness sources (copied into src/)")
	cfgPath := flag.String("config", "/verif/simport/seams.json", "seam configuration")
	out := flag.String("out", "", "output directory (must not exist or be empty)")
	flag.Parse()
	if *out == "" {
		die("-out required")
	}
	var cfg config
	b, err := os.ReadFile(*cfgPath)
	if err != nil {
		die("%v", err)
	}
	if err := json.Unmarshal(b, &cfg); err != nil {
		die("config: %v", err)
	}
	rep := &report{}
	for _, f := range []string{"go.mod", "go.sum"} {
		data, err := os.ReadFile(filepath.Join(*repo, f))
		if err != nil {
			die("%v", err)
		}
		must(os.MkdirAll(*out, 0o755))
		must(os.WriteFile(filepath.Join(*out, f), data, 0o644))
	}
	goFuncs := map[string]bool{}
	var ctxs []*fileCtx
	srcRoot := filepath.Join(*repo, "src")
	err = filepath.WalkDir(srcRoot, func(p string, d fs.DirEntry, err error) error {
		if err != nil {
			return err
		}
		rel, _ := filepath.Rel(*repo, p)
		if d.IsDir() {
			if d.Name() == "zsim" {
				return filepath.SkipDir
			}
			return os.MkdirAll(filepath.Join(*out, rel), 0o755)
		}
		data, err := os.ReadFile(p)
		if err != nil {
			return err
		}
		if !strings.HasSuffix(p, ".go") || strings.HasSuffix(p, "_test.go") {
			if strings.HasSuffix(p, "_test.go") {
				return nil
			}
			return os.WriteFile(filepath.Join(*out, rel), data, 0o644)
		}
		if strings.HasSuffix(p, "_windows.go") {
			return os.WriteFile(filepath.Join(*out, rel), data, 0o644)
		}
		fset := token.NewFileSet()
		f, err := parser.ParseFile(fset, rel, data, parser.ParseComments|parser.SkipObjectResolution)
		if err != nil {
			die("parse %s: %v", rel, err)
		}
		ctxs = append(ctxs, &fileCtx{rel: rel, src: data, fset: fset, f: f, report: rep, goFuncs: goFuncs})
		return nil
	})
	if err != nil {
		die("%v", err)
	}
	rep.Files = len(ctxs)

	simHas := func(sub string) bool {
		st, err := os.Stat(filepath.Join(*sim, sub))
		return err == nil && st.IsDir()
	}

	for _, c := range ctxs {
		c.walk(&cfg)
	}
	// Begin() in functions launched by non-literal go statements
	seamsDone := map[int]bool{}
	for _, c := range ctxs {
		for _, d := range c.f.Decls {
			fd, ok := d.(*ast.FuncDecl)
			if !ok || fd.Body == nil {
				continue
			}
			key, recvName := funcKey(fd)
			var pro string
			if goFuncs[fd.Name.Name] && strings.HasPrefix(c.rel, "src/") && filepath.Dir(c.rel) == "src" {
				pro += " zsim.Begin();"
				rep.Begins = append(rep.Begins, c.rel+":"+key)
			}
			for i, s := range cfg.Seams {
				if s.File == c.rel && s.Func == key {
					pro += " " + strings.ReplaceAll(s.Code, "$R", recvName)
					seamsDone[i] = true
					rep.Seams = append(rep.Seams, c.rel+":"+key)
				}
			}
			if pro != "" {
				c.insert(c.off(fd.Body.Lbrace)+1, pro+" ")
				if strings.Contains(pro, "zsim.") {
					c.useZsim = true
				}
			}
		}
	}
	for i, s := range cfg.Seams {
		if !seamsDone[i] {
			if s.Opt {
				rep.SeamsMissing = append(rep.SeamsMissing, s.File+":"+s.Func)
				continue
			}
			die("seam function not found: %s %s", s.File, s.Func)
		}
	}

	for _, c := range ctxs {
		// imports
		extra := ""
		for _, imp := range c.f.Imports {
			path, _ := strconv.Unquote(imp.Path.Value)
			var repl string
			for _, pat := range []string{"*", c.rel} {
				if m, ok := cfg.Imports[pat]; ok {
					if r, ok := m[path]; ok {
						repl = r
					}
				}
			}
			if repl == "" {
				continue
			}
			parts := strings.Fields(repl)
			if !simHas(strings.TrimPrefix(parts[1], zsimPath+"/")) {
				continue
			}
			if imp.Name != nil {
				c.replace(c.off(imp.Pos()), c.off(imp.End()), fmt.Sprintf("%s %q", imp.Name.Name, parts[1]))
			} else {
				c.replace(c.off(imp.Pos()), c.off(imp.End()), fmt.Sprintf("%s %q", parts[0], parts[1]))
			}
		}
		if c.useZsim {
			extra = fmt.Sprintf("; import zsim %q", zsimPath)
			// directly after the package clause's name
			c.insert(c.off(c.f.Name.End()), extra)
		}
		// apply
		sort.SliceStable(c.edits, func(i, j int) bool {
			if c.edits[i].pos != c.edits[j].pos {
				return c.edits[i].pos > c.edits[j].pos
			}
			return c.edits[i].seq > c.edits[j].seq
		})
		src := c.src
		for _, e := range c.edits {
			src = append(append(append([]byte{}, src[:e.pos]...), e.text...), src[e.end:]...)
		}
		text := string(src)
		for _, r := range cfg.Replace {
			if r.File != c.rel {
				continue
			}
			if strings.Contains(text, r.Old) {
				text = strings.Replace(text, r.Old, r.New, 1)
				rep.Replaced = append(rep.Replaced, r.File+": "+r.Old)
				if strings.Contains(r.New, "zsim.") && !c.useZsim {
					text = strings.Replace(text, "package "+c.f.Name.Name, "package "+c.f.Name.Name+fmt.Sprintf("; import zsim %q", zsimPath), 1)
					c.useZsim = true
				}
			} else {
				rep.ReplaceMiss = append(rep.ReplaceMiss, r.File+": "+r.Old)
			}
		}
		must(os.WriteFile(filepath.Join(*out, c.rel), []byte(text), 0o644))
	}

	// zsim runtime
	dst := filepath.Join(*out, "src", "zsim")
	err = filepath.WalkDir(*sim, func(p string, d fs.DirEntry, err error) error {
		if err != nil {
			return err
		}
		rel, _ := filepath.Rel(*sim, p)
		if d.IsDir() {
			return os.MkdirAll(filepath.Join(dst, rel), 0o755)
		}
		if d.Name() == "go.mod" || d.Name() == "go.sum" || strings.HasSuffix(p, "_test.go") {
			return nil
		}
		data, err := os.ReadFile(p)
		if err != nil {
			return err
		}
		return os.WriteFile(filepath.Join(dst, rel), data, 0o644)
	})
	if err != nil {
		die("%v", err)
	}
	// harness
	ents, err := os.ReadDir(*harness)
	if err == nil {
		for _, e := range ents {
			if e.IsDir() || !strings.HasSuffix(e.Name(), ".go") {
				continue
			}
			data, err := os.ReadFile(filepath.Join(*harness, e.Name()))
			if err != nil {
				die("%v", err)
			}
			must(os.WriteFile(filepath.Join(*out, "src", e.Name()), data, 0o644))
		}
	}
	// adapter for the one internal entry point the harness calls whose calling convention has been seen to
	// vary between trees: Matcher.scan takes the request by value or by pointer
	scanArg := "r"
	for _, c := range ctxs {
		if c.rel != "src/matcher.go" {
			continue
		}
		for _, d := range c.f.Decls {
			if fd, ok := d.(*ast.FuncDecl); ok && fd.Name.Name == "scan" && fd.Recv != nil && fd.Type.Params != nil && len(fd.Type.Params.List) == 1 {
				if _, ptr := fd.Type.Params.List[0].Type.(*ast.StarExpr); ptr {
					scanArg = "&r"
				}
			}
		}
	}
	must(os.WriteFile(filepath.Join(*out, "src", "zz_adapt_gen_test.go"), []byte("//go:build verif\n\npackage fzf\n\n// generated by simport\nfunc scanReq(m *Matcher, r MatchRequest) (*Merger, bool) { return m.scan("+scanArg+") }\n"), 0o644))
	sort.Strings(rep.Begins)
	j, _ := json.MarshalIndent(rep, "", " ")
	must(os.WriteFile(filepath.Join(*out, "simport-report.json"), j, 0o644))
	fmt.Printf("simport: %d files, %d yields, %d go sites, %d selects, %d mailbox ranges, %d seams\n",
		rep.Files, rep.Yields, rep.GoSites, rep.Selects, rep.MailboxRange, len(rep.Seams))
	for _, s := range rep.SelectsSkip {
		fmt.Println("simport: WARNING select not rewritten:", s)
	}
	for _, s := range rep.ReplaceMiss {
		fmt.Println("simport: WARNING replace target not found:", s)
	}
}

func must(err error) {
	if err != nil {
		die("%v", err)
	}
}
