module verif/simport

go 1.20
