// verifdrv drives the simulated checks: builds the instrumented worker binary
// from /repo's current working tree, fans seeds out to worker processes,
// aggregates, minimises and replays violations, writes evidence.
//
// Exit status: 0 property held on everything explored (KNOWN-FINDING lines
// possible); 1 at least one unlisted violation (VIOLATION lines); 2
// infrastructure trouble (build, seam, harness panic, replay divergence).
package main

import (
	"bytes"
	"crypto/sha256"
	"encoding/json"
	"flag"
	"fmt"
	"io/fs"
	"os"
	"os/exec"
	"path/filepath"
	"regexp"
	"sort"
	"strconv"
	"strings"
	"sync"
	"time"
)

// repoDir is the tree under test: /repo's working tree. VERIF_REPO overrides it for background runs on
// a snapshot and for runs against a seeded change in a scratch worktree (never for registered commands).
var repoDir = func() string {
	if d := os.Getenv("VERIF_REPO"); d != "" {
		return d
	}
	return "/repo"
}()

// verifDir is where the framework lives: /verif, or a snapshot copy of it (VERIF_DIR, set by ./check).
var verifDir = func() string {
	if d := os.Getenv("VERIF_DIR"); d != "" {
		return d
	}
	return "/verif"
}()

func infra(format string, a ...any) {
	fmt.Printf("INFRA: "+format+"\n", a...)
	os.Exit(2)
}

// ---------------------------------------------------------------------------
// build

func goEnv() []string {
	env := os.Environ()
	env = append(env, "GOFLAGS=-mod=mod", "GOPROXY=off", "GOSUMDB=off", "GOTOOLCHAIN=local", "CGO_ENABLED=0")
	return env
}

func hashTree(h interface{ Write([]byte) (int, error) }, root string, filter func(string) bool) {
	var files []string
	filepath.WalkDir(root, func(p string, d fs.DirEntry, err error) error {
		if err != nil {
			return nil
		}
		if d.IsDir() {
			if d.Name() == ".git" || d.Name() == ".build" {
				return filepath.SkipDir
			}
			return nil
		}
		if filter(p) {
			files = append(files, p)
		}
		return nil
	})
	sort.Strings(files)
	for _, f := range files {
		data, err := os.ReadFile(f)
		if err != nil {
			continue
		}
		fmt.Fprintf(h.(interface{ Write([]byte) (int, error) }), "%s\x00%d\x00", f, len(data))
		h.Write(data)
	}
}

func treeHashes() (build string, repo string) {
	isGo := func(p string) bool {
		return strings.HasSuffix(p, ".go") && !strings.HasSuffix(p, "_test.go")
	}
	hr := sha256.New()
	hashTree(hr, filepath.Join(repoDir, "src"), isGo)
	for _, f := range []string{"go.mod", "go.sum"} {
		d, _ := os.ReadFile(filepath.Join(repoDir, f))
		hr.Write(d)
	}
	repo = fmt.Sprintf("%x", hr.Sum(nil))[:16]
	hb := sha256.New()
	hb.Write([]byte(repo))
	all := func(p string) bool { return strings.HasSuffix(p, ".go") || strings.HasSuffix(p, ".json") }
	hashTree(hb, filepath.Join(verifDir, "sim"), all)
	hashTree(hb, filepath.Join(verifDir, "harness"), all)
	hashTree(hb, filepath.Join(verifDir, "simport"), all)
	build = fmt.Sprintf("%x", hb.Sum(nil))[:16]
	return
}

func run(dir string, env []string, name string, args ...string) (string, error) {
	cmd := exec.Command(name, args...)
	cmd.Dir = dir
	cmd.Env = env
	var buf bytes.Buffer
	cmd.Stdout = &buf
	cmd.Stderr = &buf
	err := cmd.Run()
	return buf.String(), err
}

// ensureWorker returns the path of the worker test binary for the current trees.
func ensureWorker(race bool) (string, string) {
	buildKey, repoKey := treeHashes()
	name := "worker.test"
	if race {
		name = "worker-race.test"
	}
	bdir := filepath.Join(verifDir, ".build", buildKey)
	bin := filepath.Join(bdir, name)
	if _, err := os.Stat(bin); err == nil {
		now := time.Now()
		os.Chtimes(bdir, now, now)
		return bin, repoKey
	}
	// serialise concurrent builders (checks may be started in parallel)
	os.MkdirAll(filepath.Join(verifDir, ".build"), 0o755)
	lock := filepath.Join(verifDir, ".build", "lock")
	for i := 0; ; i++ {
		f, err := os.OpenFile(lock, os.O_CREATE|os.O_EXCL|os.O_WRONLY, 0o644)
		if err == nil {
			fmt.Fprintf(f, "%d", os.Getpid())
			f.Close()
			break
		}
		if st, err := os.Stat(lock); err == nil {
			// stale lock: its owner is gone (or it is implausibly old)
			stale := time.Since(st.ModTime()) > 15*time.Minute
			if b, err := os.ReadFile(lock); err == nil {
				if pid, err := strconv.Atoi(strings.TrimSpace(string(b))); err == nil && pid > 0 {
					if _, err := os.Stat(fmt.Sprintf("/proc/%d", pid)); err != nil {
						stale = true
					}
				} else if time.Since(st.ModTime()) > 5*time.Second {
					stale = true
				}
			}
			if stale {
				os.Remove(lock)
				continue
			}
		}
		time.Sleep(500 * time.Millisecond)
		if _, err := os.Stat(bin); err == nil {
			return bin, repoKey
		}
	}
	defer os.Remove(lock)
	if _, err := os.Stat(bin); err == nil {
		return bin, repoKey
	}
	t0 := time.Now()
	tmpBase := os.Getenv("TMPDIR")
	if tmpBase == "" {
		tmpBase = "/tmp"
	}
	scratch, err := os.MkdirTemp(tmpBase, "verif-sc-")
	if err != nil {
		infra("mktemp: %v", err)
	}
	defer os.RemoveAll(scratch)
	simportBin := filepath.Join(scratch, "simport.bin")
	if out, err := run(filepath.Join(verifDir, "simport"), goEnv(), "go", "build", "-o", simportBin, "."); err != nil {
		infra("building simport failed:\n%s", out)
	}
	tree := filepath.Join(scratch, "tree")
	out, err := run(verifDir, goEnv(), simportBin, "-repo", repoDir, "-sim", filepath.Join(verifDir, "sim"),
		"-harness", filepath.Join(verifDir, "harness"), "-config", filepath.Join(verifDir, "simport", "seams.json"), "-out", tree)
	if err != nil {
		infra("simport failed:\n%s", out)
	}
	fmt.Print(out)
	os.MkdirAll(bdir, 0o755)
	args := []string{"test", "-c", "-tags", "verif", "-vet=off", "-o", bin}
	if race {
		args = append(args, "-race")
	}
	args = append(args, "./src")
	env := goEnv()
	if race {
		env = append(env, "CGO_ENABLED=1")
	}
	if out, err := run(tree, env, "go1.26.8", args...); err != nil {
		os.RemoveAll(bdir)
		infra("building the instrumented worker failed (go1.26.8 test -c):\n%s", tail(out, 6000))
	}
	if rep, err := os.ReadFile(filepath.Join(tree, "simport-report.json")); err == nil {
		os.WriteFile(filepath.Join(bdir, "simport-report.json"), rep, 0o644)
	}
	fmt.Printf("build: worker for tree %s built in %.1fs\n", repoKey, time.Since(t0).Seconds())
	// keep at most 3 cached builds
	ents, _ := os.ReadDir(filepath.Join(verifDir, ".build"))
	type ent struct {
		p string
		t time.Time
	}
	var ds []ent
	for _, e := range ents {
		if e.IsDir() {
			if st, err := os.Stat(filepath.Join(verifDir, ".build", e.Name())); err == nil {
				ds = append(ds, ent{filepath.Join(verifDir, ".build", e.Name()), st.ModTime()})
			}
		}
	}
	sort.Slice(ds, func(i, j int) bool { return ds[i].t.After(ds[j].t) })
	for i := 4; i < len(ds); i++ {
		// never evict a build that may still be in use by a concurrent check
		if time.Since(ds[i].t) > 45*time.Minute {
			os.RemoveAll(ds[i].p)
		}
	}
	return bin, repoKey
}

func tail(s string, n int) string {
	if len(s) > n {
		return "…" + s[len(s)-n:]
	}
	return s
}

// ---------------------------------------------------------------------------
// protocol types (mirror harness/zz_worker_test.go)

type replayRec struct {
	Property  string          `json:"property"`
	Scenario  string          `json:"scenario"`
	Seed      uint64          `json:"seed"`
	Plan      json.RawMessage `json:"plan"`
	Tape      []uint32        `json:"tape"`
	Signature string          `json:"signature,omitempty"`
	Detail    string          `json:"detail,omitempty"`
	LogHash   string          `json:"log_hash,omitempty"`
	Tree      string          `json:"tree,omitempty"`
	Trace     []string        `json:"trace,omitempty"`
	History   []string        `json:"history,omitempty"`
	Params    map[string]int  `json:"params,omitempty"`
}

type job struct {
	Property string         `json:"property"`
	Scenario string         `json:"scenario"`
	Base     uint64         `json:"base"`
	From     int            `json:"from"`
	To       int            `json:"to"`
	Out      string         `json:"out"`
	Tier     string         `json:"tier"`
	Replay   *replayRec     `json:"replay,omitempty"`
	Params   map[string]int `json:"params,omitempty"`
	Deadline int64          `json:"deadline_unix,omitempty"`
	WantPlan bool           `json:"want_plan,omitempty"`
}

type violation struct {
	Class  string `json:"class"`
	Detail string `json:"detail"`
}

type runResult struct {
	T        string          `json:"t"`
	Seed     uint64          `json:"seed"`
	Index    int             `json:"index"`
	Viol     []violation     `json:"viol,omitempty"`
	Infra    string          `json:"infra,omitempty"`
	Hash     string          `json:"hash,omitempty"`
	Steps    int             `json:"steps,omitempty"`
	Preempt  int             `json:"preempt,omitempty"`
	SimNs    int64           `json:"sim_ns,omitempty"`
	Outcome  string          `json:"outcome,omitempty"`
	Counters map[string]int  `json:"counters,omitempty"`
	Plan     json.RawMessage `json:"plan,omitempty"`
	Tape     []uint32        `json:"tape,omitempty"`
	Trace    []string        `json:"trace,omitempty"`
	History  []string        `json:"history,omitempty"`
	State    string          `json:"state,omitempty"`
	Sites    map[string]int  `json:"sites,omitempty"`
	SitesP   map[string]int  `json:"sites_preempt,omitempty"`
	scenario string
}

// ---------------------------------------------------------------------------
// running workers

type batchOut struct {
	results []*runResult
	crash   *runResult // run that was started but never finished
	stderr  string
	exit    int
}

func runWorker(bin string, j *job, workDir string, timeout time.Duration, race bool) *batchOut {
	if race {
		// pass-through scenarios: real parallelism is the point
		return runWorkerWith(bin, j, workDir, timeout, "4", race)
	}
	return runWorkerWith(bin, j, workDir, timeout, "1", race)
}

func runWorkerWith(bin string, j *job, workDir string, timeout time.Duration, gomaxprocs string, race bool) *batchOut {
	jf, _ := os.CreateTemp(workDir, "job-*.json")
	of := jf.Name() + ".out"
	j.Out = of
	b, _ := json.Marshal(j)
	jf.Write(b)
	jf.Close()
	defer os.Remove(jf.Name())
	defer os.Remove(of)
	cmd := exec.Command(bin, "-test.run", "^TestVerifWorker$", "-test.timeout", "0")
	if !race {
		// the sandbox has no memory limit: a run that allocates without end must die by itself (the race
		// detector needs a huge address space and is left alone)
		cmd = exec.Command("sh", "-c", "ulimit -v 16000000 2>/dev/null; exec \"$0\" \"$@\"", bin, "-test.run", "^TestVerifWorker$", "-test.timeout", "0")
	}
	env := append(os.Environ(), "VERIF_JOB="+jf.Name(), "GOMAXPROCS="+gomaxprocs, "TMPDIR="+workDir, "TERM=xterm-256color")
	if race {
		env = append(env, "GORACE=halt_on_error=1 exitcode=66")
	}
	cmd.Env = env
	cmd.Dir = workDir
	var errb bytes.Buffer
	cmd.Stderr = &errb
	cmd.Stdout = &errb
	done := make(chan error, 1)
	if err := cmd.Start(); err != nil {
		infra("cannot start worker: %v", err)
	}
	go func() { done <- cmd.Wait() }()
	var err error
	timedOut := false
	select {
	case err = <-done:
	case <-time.After(timeout):
		cmd.Process.Kill()
		err = <-done
		timedOut = true
	}
	out := &batchOut{stderr: errb.String()}
	if err != nil {
		out.exit = 1
		if ee, ok := err.(*exec.ExitError); ok {
			out.exit = ee.ExitCode()
		}
	}
	if timedOut {
		out.exit = -9
	}
	data, _ := os.ReadFile(of)
	var started *runResult
	for _, line := range bytes.Split(data, []byte("\n")) {
		if len(line) == 0 {
			continue
		}
		var r runResult
		if json.Unmarshal(line, &r) != nil {
			continue
		}
		r.scenario = j.Scenario
		if r.T == "start" {
			started = &r
		} else {
			started = nil
			rr := r
			out.results = append(out.results, &rr)
		}
	}
	if started != nil {
		out.crash = started
	}
	return out
}

// ---------------------------------------------------------------------------
// check tables

type scenCfg struct {
	Name     string
	Quick    int // runs
	Thorough int
	Batch    int
	Params   map[string]int
	Race     bool
}

type propCfg struct {
	Scenarios []scenCfg
	Rule      string
	Assume    []string
	RealStub  map[string][]string
	QuickSecs int
	ThorSecs  int
}

var commonAssume = []string{
	"instrumented copy built by go1.26.8 with asynctimerchan=0 (shipped binary: default toolchain); fzf uses timers only in receive-once patterns where both modes agree",
	"interleavings are explored at synchronisation granularity (yield before every lock, channel, select, atomic, cond, waitgroup, time.Now); data races finer than that are outside the deterministic part",
	"seeded sampling, not enumeration: a clean batch is evidence, not proof",
}

// ---------------------------------------------------------------------------
// known findings

type knownFinding struct {
	Property string `json:"property"`
	Class    string `json:"class"`
	Match    string `json:"match"` // regexp on the violation detail
	What     string `json:"what"`
}
type knownFile struct {
	Findings []knownFinding `json:"findings"`
	Fixed    []string       `json:"fixed"`
}

func loadKnown() *knownFile {
	k := &knownFile{}
	b, err := os.ReadFile(filepath.Join(verifDir, "known_findings.json"))
	if err == nil {
		if err := json.Unmarshal(b, k); err != nil {
			infra("known_findings.json: %v", err)
		}
	}
	return k
}

func (k *knownFile) match(prop string, v violation) *knownFinding {
	for i := range k.Findings {
		f := &k.Findings[i]
		if f.Property != prop || f.Class != v.Class {
			continue
		}
		if f.Match == "" {
			continue
		}
		if ok, _ := regexp.MatchString(f.Match, v.Detail); ok {
			return f
		}
	}
	return nil
}

// ---------------------------------------------------------------------------
// main

func main() {
	prop := flag.String("prop", "", "property id")
	tier := flag.String("tier", "", "quick|thorough")
	replay := flag.String("replay", "", "replay file")
	seedFlag := flag.String("seed", "", "base seed")
	runsFlag := flag.Int("runs", 0, "override number of runs per scenario")
	secsFlag := flag.Int("secs", 0, "override wall-clock budget (s)")
	only := flag.String("scenario", "", "only this scenario")
	buildOnly := flag.Bool("build-only", false, "build the worker and exit")
	selftest := flag.Bool("selftest", false, "determinism self-test")
	workers := flag.Int("workers", 16, "parallel worker processes")
	noShrink := flag.Bool("no-shrink", false, "do not minimise")
	flag.Parse()

	if *buildOnly {
		ensureWorker(false)
		return
	}
	if *tier == "" {
		*tier = os.Getenv("VERIF_TIER")
	}
	if *tier == "" {
		*tier = "quick"
	}
	if *tier != "quick" && *tier != "thorough" {
		infra("bad tier %q", *tier)
	}
	base := uint64(20261004)
	ss := *seedFlag
	if ss == "" {
		ss = os.Getenv("VERIF_SEED")
	}
	if ss != "" {
		v, err := strconv.ParseUint(ss, 10, 64)
		if err != nil {
			if iv, err2 := strconv.ParseInt(ss, 10, 64); err2 == nil {
				v = uint64(iv)
			} else {
				infra("bad seed %q", ss)
			}
		}
		base = v
	}
	if *selftest {
		os.Exit(selfTest(*prop, base, *workers))
	}
	pc, ok := props[*prop]
	if !ok {
		infra("unknown property %q", *prop)
	}
	if *replay != "" {
		os.Exit(doReplay(*prop, *replay))
	}
	os.Exit(check(*prop, pc, *tier, base, *runsFlag, *secsFlag, *only, *workers, *noShrink))
}

type agg struct {
	mu         sync.Mutex
	evals      int
	hashes     map[string]bool
	nontrivial map[string]bool
	counters   map[string]int
	perScen    map[string]int
	steps      int64
	simNs      int64
	preempt    int64
	viol       map[string][]*runResult // class -> runs
	infraMsgs  []string
	samples    []any
	sites      map[string]int
	sitesP     map[string]int
	states     map[string]bool
	outcomes   map[string]int
}

func newAgg() *agg {
	return &agg{hashes: map[string]bool{}, nontrivial: map[string]bool{}, counters: map[string]int{}, perScen: map[string]int{},
		viol: map[string][]*runResult{}, sites: map[string]int{}, sitesP: map[string]int{}, states: map[string]bool{}, outcomes: map[string]int{}}
}

func (a *agg) add(scen string, r *runResult, bubble bool) {
	a.mu.Lock()
	defer a.mu.Unlock()
	a.evals++
	a.perScen[scen]++
	key := scen + ":" + r.Hash
	if r.Hash == "" {
		key = scen + ":" + r.State + ":" + strconv.FormatUint(r.Seed, 16)
		if r.State != "" {
			key = scen + ":" + r.State
		}
	}
	a.hashes[key] = true
	nontriv := false
	if r.Hash != "" {
		nontriv = r.Preempt > 0
	} else {
		nontriv = r.Counters["probe.multi_read"] > 0 || r.Counters["nontrivial"] > 0
	}
	if nontriv {
		a.nontrivial[key] = true
	}
	for k, v := range r.Counters {
		a.counters[k] += v
	}
	a.steps += int64(r.Steps)
	a.simNs += r.SimNs
	a.preempt += int64(r.Preempt)
	for k, v := range r.Sites {
		a.sites[k] += v
	}
	for k, v := range r.SitesP {
		a.sitesP[k] += v
	}
	if r.State != "" && len(a.states) < 200000 {
		a.states[scen+":"+r.State] = true
	}
	if r.Outcome != "" {
		a.outcomes[r.Outcome]++
	}
	for _, v := range r.Viol {
		a.viol[v.Class] = append(a.viol[v.Class], r)
	}
	if r.Infra != "" {
		a.infraMsgs = append(a.infraMsgs, r.Infra)
	}
	if len(a.samples) < 3 && r.Plan != nil && len(r.Viol) == 0 {
		var plan any
		json.Unmarshal(r.Plan, &plan)
		s := map[string]any{"scenario": scen, "seed": r.Seed, "plan": clipJSON(plan, 0), "state": r.State, "outcome": r.Outcome}
		if len(r.Trace) > 0 {
			tr := r.Trace
			if len(tr) > 50 {
				tr = tr[:50]
			}
			s["trace_first_50"] = tr
		}
		if len(r.History) > 0 {
			h := r.History
			if len(h) > 40 {
				h = h[:40]
			}
			s["history_first_40"] = h
		}
		a.samples = append(a.samples, s)
	}
}

// clipJSON shortens long arrays/strings so that evidence samples stay readable.
func clipJSON(v any, depth int) any {
	switch x := v.(type) {
	case []any:
		n := len(x)
		lim := 12
		out := make([]any, 0, lim+1)
		for i := 0; i < n && i < lim; i++ {
			out = append(out, clipJSON(x[i], depth+1))
		}
		if n > lim {
			out = append(out, fmt.Sprintf("… %d more", n-lim))
		}
		return out
	case map[string]any:
		out := map[string]any{}
		for k, e := range x {
			out[k] = clipJSON(e, depth+1)
		}
		return out
	case string:
		if len(x) > 200 {
			return x[:200] + fmt.Sprintf("…(%d bytes)", len(x))
		}
	}
	return v
}

// raceSignature names the two conflicting accesses of a race report by the innermost frame of each
// access stack ("race between <access> <func> and <access> <func>"); known findings are matched on it.
func raceSignature(rep string) string {
	var parts []string
	lines := strings.Split(rep, "\n")
	for i := 0; i < len(lines) && len(parts) < 2; i++ {
		l := strings.TrimSpace(lines[i])
		kind := ""
		switch {
		case strings.HasPrefix(l, "Read at"), strings.HasPrefix(l, "Previous read at"):
			kind = "read"
		case strings.HasPrefix(l, "Write at"), strings.HasPrefix(l, "Previous write at"):
			kind = "write"
		case strings.HasPrefix(l, "Atomic") || strings.HasPrefix(l, "Previous atomic"):
			kind = "atomic"
		}
		if kind == "" {
			continue
		}
		// innermost frame that is not a runtime / shim frame
		fn := "?"
		for k := i + 1; k < len(lines); k++ {
			f := strings.TrimSpace(lines[k])
			if f == "" {
				break
			}
			if strings.HasPrefix(f, "/") || strings.HasPrefix(f, "runtime.") || strings.HasPrefix(f, "sync") || strings.Contains(f, "/zsim") {
				continue
			}
			fn = strings.TrimSuffix(strings.TrimPrefix(f, "github.com/junegunn/fzf/src"), "()")
			break
		}
		parts = append(parts, kind+" in "+fn)
	}
	if len(parts) == 2 {
		if parts[1] < parts[0] {
			parts[0], parts[1] = parts[1], parts[0]
		}
		return "race between " + parts[0] + " and " + parts[1]
	}
	return "race (unparsed report)"
}

func crashViolation(bo *batchOut) (violation, bool) {
	// a worker died inside a run: a panic in a non-root goroutine, a fatal runtime error, or a race report
	st := bo.stderr
	if strings.Contains(st, "WARNING: DATA RACE") {
		rep := headFrom(st, "WARNING: DATA RACE")
		return violation{"race", raceSignature(rep) + "\n" + tail(rep, 6000)}, true
	}
	if k := strings.Index(st, "panic: CPU-LOOP "); k >= 0 {
		return violation{"sys.cpu_loop", tail(st[k+len("panic: CPU-LOOP "):], 5000)}, true
	}
	idx := strings.Index(st, "panic:")
	if idx < 0 {
		idx = strings.Index(st, "fatal error:")
	}
	if idx < 0 {
		return violation{}, false
	}
	msg := st[idx:]
	first := msg
	if i := strings.Index(first, "\n"); i > 0 {
		first = first[:i]
	}
	if strings.Contains(first, "INFRA") {
		return violation{}, false
	}
	// which code raised it? find the first non-runtime frame after the panic line
	lines := strings.Split(msg, "\n")
	for i := 1; i+1 < len(lines); i++ {
		l := lines[i]
		if l == "" || strings.HasPrefix(l, "\t") || strings.HasPrefix(l, "goroutine ") || strings.HasPrefix(l, "[signal") {
			continue
		}
		if strings.HasPrefix(l, "runtime.") || strings.HasPrefix(l, "runtime/") || strings.HasPrefix(l, "panic(") ||
			strings.HasPrefix(l, "internal/") || strings.HasPrefix(l, "sync.") || strings.HasPrefix(l, "sync/") {
			continue
		}
		file := lines[i+1]
		if strings.Contains(file, "/zz_") || strings.Contains(file, "/zsim/") {
			if strings.Contains(l, "zsim.Select") || strings.Contains(l, "simsync") {
				// shim frames on top of fzf frames (e.g. unlock of unlocked mutex, send on closed channel): keep looking
				continue
			}
			return violation{}, false
		}
		break
	}
	if len(msg) > 3500 {
		msg = msg[:3500]
	}
	return violation{"panic", msg}, true
}

func headFrom(s, marker string) string {
	if i := strings.Index(s, marker); i >= 0 {
		return s[i:]
	}
	return s
}

func check(prop string, pc propCfg, tier string, base uint64, runsOv, secsOv int, only string, nworkers int, noShrink bool) int {
	t0 := time.Now()
	bin, repoKey := ensureWorker(false)
	var raceBin string
	for _, sc := range pc.Scenarios {
		if sc.Race && raceBin == "" && (only == "" || only == sc.Name) {
			raceBin, _ = ensureWorker(true)
		}
	}
	buildSecs := time.Since(t0).Seconds()
	workDir, err := os.MkdirTemp("", "verif-run-")
	if err != nil {
		infra("%v", err)
	}
	defer os.RemoveAll(workDir)

	secs := pc.QuickSecs
	if tier == "thorough" {
		secs = pc.ThorSecs
	}
	if secsOv > 0 {
		secs = secsOv
	}
	deadline := time.Now().Add(time.Duration(secs) * time.Second)

	a := newAgg()
	type task struct {
		sc       scenCfg
		from, to int
	}
	var tasks []task
	for _, sc := range pc.Scenarios {
		if only != "" && sc.Name != only {
			continue
		}
		n := sc.Quick
		if tier == "thorough" {
			n = sc.Thorough
		}
		if runsOv > 0 {
			n = runsOv
		}
		bs := sc.Batch
		if bs == 0 {
			bs = 200
		}
		for f := 0; f < n; f += bs {
			t := f + bs
			if t > n {
				t = n
			}
			tasks = append(tasks, task{sc, f, t})
		}
	}
	// interleave scenarios so that a time-out hits all of them evenly
	sort.SliceStable(tasks, func(i, j int) bool { return tasks[i].from < tasks[j].from })
	var wg sync.WaitGroup
	ch := make(chan task)
	var crashMu sync.Mutex
	var infraFail []string
	skipped := 0
	for w := 0; w < nworkers; w++ {
		wg.Add(1)
		go func() {
			defer wg.Done()
			for t := range ch {
				if time.Now().After(deadline) {
					crashMu.Lock()
					skipped += t.to - t.from
					crashMu.Unlock()
					continue
				}
				from := t.from
				for from < t.to {
					j := &job{Property: prop, Scenario: t.sc.Name, Base: base, From: from, To: t.to, Tier: tier, Params: t.sc.Params,
						Deadline: deadline.Unix()}
					b := bin
					if t.sc.Race {
						b = raceBin
					}
					bo := runWorker(b, j, workDir, time.Until(deadline)+90*time.Second, t.sc.Race)
					for _, r := range bo.results {
						a.add(t.sc.Name, r, true)
					}
					if bo.crash != nil {
						v, isViol := crashViolation(bo)
						if bo.exit == -9 {
							crashMu.Lock()
							infraFail = append(infraFail, fmt.Sprintf("watchdog: worker for %s seed index %d did not finish", t.sc.Name, bo.crash.Index))
							crashMu.Unlock()
							break
						}
						if !isViol {
							crashMu.Lock()
							infraFail = append(infraFail, fmt.Sprintf("worker crashed in %s index %d:\n%s", t.sc.Name, bo.crash.Index, tail(bo.stderr, 4000)))
							crashMu.Unlock()
							break
						}
						r := bo.crash
						r.scenario = t.sc.Name
						r.Viol = []violation{v}
						// plan and tape of a crashed run are not known to the parent: re-derive by replaying the seed with want_plan
						a.mu.Lock()
						a.evals++
						a.viol[v.Class] = append(a.viol[v.Class], r)
						a.mu.Unlock()
						from = bo.crash.Index + 1
						continue
					}
					if bo.exit == 2 {
						crashMu.Lock()
						infraFail = append(infraFail, tail(bo.stderr, 4000))
						crashMu.Unlock()
					}
					break
				}
			}
		}()
	}
	for _, t := range tasks {
		ch <- t
	}
	close(ch)
	wg.Wait()
	exploreSecs := time.Since(t0).Seconds() - buildSecs

	if len(infraFail) > 0 || len(a.infraMsgs) > 0 {
		for _, m := range infraFail {
			fmt.Println("INFRA:", m)
		}
		for i, m := range a.infraMsgs {
			if i < 5 {
				fmt.Println("INFRA:", m)
			}
		}
		writeEvidence(prop, pc, tier, base, a, time.Since(t0).Seconds(), 0, repoKey, skipped, exploreSecs, nil)
		return 2
	}

	// violations
	os.RemoveAll(filepath.Join(verifDir, "replays", prop))
	known := loadKnown()
	exit := 0
	nviol := 0
	var knownLines []string
	classes := make([]string, 0, len(a.viol))
	for c := range a.viol {
		classes = append(classes, c)
	}
	sort.Strings(classes)
	reported := map[string]bool{}
	for _, class := range classes {
		runs := a.viol[class]
		sort.Slice(runs, func(i, j int) bool {
			if runs[i].scenario != runs[j].scenario {
				return runs[i].scenario < runs[j].scenario
			}
			return runs[i].Index < runs[j].Index
		})
		// split into known and new
		var fresh []*runResult
		for _, r := range runs {
			var v violation
			for _, vv := range r.Viol {
				if vv.Class == class {
					v = vv
					break
				}
			}
			if kf := known.match(prop, v); kf != nil {
				line := fmt.Sprintf("KNOWN-FINDING: property=%s %s", prop, kf.What)
				if !reported[line] {
					reported[line] = true
					knownLines = append(knownLines, line)
				}
				continue
			}
			fresh = append(fresh, r)
		}
		if len(fresh) == 0 {
			continue
		}
		nviol += len(fresh)
		r := fresh[0]
		// start minimisation from the smallest failing plan among the first few
		for i, c := range fresh {
			if i >= 60 {
				break
			}
			if c.Plan != nil && r.Plan != nil && len(c.Plan) < len(r.Plan) {
				r = c
			}
		}
		path := reportViolation(prop, class, r, bin, workDir, repoKey, noShrink, base, tier)
		fmt.Printf("VIOLATION property=%s replay=%s\n", prop, path)
		var v violation
		for _, vv := range r.Viol {
			if vv.Class == class {
				v = vv
			}
		}
		fmt.Printf("  class=%s scenario=%s seed=%d runs_failing=%d\n  %s\n", class, r.scenario, r.Seed, len(fresh), strings.ReplaceAll(tail(v.Detail, 1500), "\n", "\n  "))
		exit = 1
	}
	for _, l := range knownLines {
		fmt.Println(l)
	}
	writeEvidence(prop, pc, tier, base, a, time.Since(t0).Seconds(), nviol, repoKey, skipped, exploreSecs, knownLines)
	fmt.Printf("%s %s: %d runs, %d distinct, %d violations, %.1fs (build %.1fs)\n", prop, tier, a.evals, len(a.hashes), nviol, time.Since(t0).Seconds(), buildSecs)
	return exit
}

func writeEvidence(prop string, pc propCfg, tier string, base uint64, a *agg, wall float64, nviol int, repoKey string, skipped int, exploreSecs float64, known []string) {
	faults := map[string]int{}
	probes := map[string]int{}
	other := map[string]int{}
	for k, v := range a.counters {
		switch {
		case strings.HasPrefix(k, "fault."):
			faults[k[6:]] = v
		case strings.HasPrefix(k, "probe."):
			probes[k[6:]] = v
		default:
			other[k] = v
		}
	}
	topSites := func(m map[string]int) map[string]int {
		type kv struct {
			k string
			v int
		}
		var l []kv
		for k, v := range m {
			l = append(l, kv{k, v})
		}
		sort.Slice(l, func(i, j int) bool { return l[i].v > l[j].v || l[i].v == l[j].v && l[i].k < l[j].k })
		out := map[string]int{}
		for i, e := range l {
			if i >= 25 {
				break
			}
			out[e.k] = e.v
		}
		return out
	}
	perHour := 0.0
	if exploreSecs > 0 {
		perHour = float64(a.evals) / exploreSecs * 3600
	}
	samples := a.samples
	if len(samples) == 0 {
		samples = []any{"no clean run carried a plan (all sampled runs failed or none ran)"}
	}
	cov := map[string]any{
		"evaluations":               a.evals,
		"distinct_nontrivial":       len(a.nontrivial),
		"rule":                      pc.Rule,
		"samples":                   samples,
		"distinct_runs":             len(a.hashes),
		"runs_per_scenario":         a.perScen,
		"runs_per_hour":             int(perHour),
		"seeds_per_hour":            int(perHour),
		"simulated_seconds_total":   float64(a.simNs) / 1e9,
		"scheduler_steps":           a.steps,
		"preemptions":               a.preempt,
		"fault_kinds_fired":         faults,
		"probes_hit":                probes,
		"other_counters":            other,
		"distinct_settle_states":    len(a.states),
		"yield_sites_executed":      len(a.sites),
		"yield_sites_preempted_at":  len(a.sitesP),
		"top_yield_sites":           topSites(a.sites),
		"run_outcomes":              a.outcomes,
		"runs_skipped_by_wallclock": skipped,
		"real_vs_stub":              pc.RealStub,
		"repo_tree_hash":            repoKey,
		"known_findings_reproduced": known,
	}
	ev := map[string]any{
		"property_id": prop,
		"tier":        tier,
		"seed":        int64(base & 0x7fffffffffffffff),
		"level":       "exploration",
		"coverage":    cov,
		"assumptions": append(append([]string{}, commonAssume...), pc.Assume...),
		"wall_s":      wall,
		"violations":  nviol,
	}
	b, _ := json.MarshalIndent(ev, "", " ")
	evDir := filepath.Join(verifDir, "evidence")
	if os.Getenv("VERIF_REPO") != "" {
		// a run against another tree (seeded change, background snapshot) is not evidence about /repo
		evDir = filepath.Join(verifDir, ".evidence-other-tree")
	}
	os.MkdirAll(evDir, 0o755)
	if err := os.WriteFile(filepath.Join(evDir, prop+".json"), b, 0o644); err != nil {
		infra("evidence: %v", err)
	}
}
