module verif/verifdrv

go 1.20
