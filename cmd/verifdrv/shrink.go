package main

import (
	"encoding/json"
	"fmt"
	"os"
	"path/filepath"
	"sort"
	"strings"
	"sync"
	"time"
)

func violOf(r *runResult, class string) (violation, bool) {
	for _, v := range r.Viol {
		if v.Class == class {
			return v, true
		}
	}
	return violation{}, false
}

// tryReplay executes one replay record in a fresh worker process.
func tryReplay(bin string, rec *replayRec, workDir string, tier string) *runResult {
	j := &job{Property: rec.Property, Scenario: rec.Scenario, Replay: rec, Tier: tier, WantPlan: true, Params: rec.Params}
	bo := runWorker(bin, j, workDir, 120*time.Second, false)
	if len(bo.results) > 0 {
		return bo.results[0]
	}
	if bo.crash != nil {
		if v, ok := crashViolation(bo); ok {
			r := bo.crash
			r.Viol = []violation{v}
			return r
		}
		return &runResult{Infra: "worker crashed: " + tail(bo.stderr, 2000)}
	}
	return &runResult{Infra: "no result: " + tail(bo.stderr, 2000)}
}

// ---- generic, structure-aware delta debugging over a JSON plan ----------------

type jpath []any

func jget(root any, path jpath) any {
	v := root
	for _, p := range path {
		switch k := p.(type) {
		case string:
			m, ok := v.(map[string]any)
			if !ok {
				return nil
			}
			v = m[k]
		case int:
			a, ok := v.([]any)
			if !ok || k >= len(a) {
				return nil
			}
			v = a[k]
		}
	}
	return v
}

func jclone(v any) any {
	b, _ := json.Marshal(v)
	var o any
	json.Unmarshal(b, &o)
	return o
}

func jset(root any, path jpath, nv any) any {
	if len(path) == 0 {
		return nv
	}
	r := jclone(root)
	v := r
	for _, p := range path[:len(path)-1] {
		switch k := p.(type) {
		case string:
			v = v.(map[string]any)[k]
		case int:
			v = v.([]any)[k]
		}
	}
	switch k := path[len(path)-1].(type) {
	case string:
		v.(map[string]any)[k] = nv
	case int:
		v.([]any)[k] = nv
	}
	return r
}

func jpaths(plan any) (arrays []jpath, scalars []jpath) {
	var walk func(v any, path jpath)
	walk = func(v any, path jpath) {
		switch x := v.(type) {
		case map[string]any:
			keys := make([]string, 0, len(x))
			for k := range x {
				keys = append(keys, k)
			}
			sort.Strings(keys)
			for _, k := range keys {
				walk(x[k], append(append(jpath{}, path...), k))
			}
		case []any:
			arrays = append(arrays, path)
			for i, e := range x {
				walk(e, append(append(jpath{}, path...), i))
			}
		default:
			scalars = append(scalars, path)
		}
	}
	walk(plan, nil)
	return
}

func planSize(plan any) int {
	b, _ := json.Marshal(plan)
	return len(b)
}

// firstOK tests candidates in parallel batches and returns the index of the
// first (in order) that still fails the same way, or -1.
func firstOK(n int, test func(i int) bool, deadline time.Time) int {
	const par = 16
	for i := 0; i < n && time.Now().Before(deadline); i += par {
		end := i + par
		if end > n {
			end = n
		}
		oks := make([]bool, end-i)
		var wg sync.WaitGroup
		for k := i; k < end; k++ {
			wg.Add(1)
			go func(k int) {
				defer wg.Done()
				oks[k-i] = test(k)
			}(k)
		}
		wg.Wait()
		for k := i; k < end; k++ {
			if oks[k-i] {
				return k
			}
		}
	}
	return -1
}

// shrink minimises (plan, tape) while the same violation class persists.
func shrink(bin string, rec *replayRec, class string, workDir string, tier string, budget time.Duration) *replayRec {
	deadline := time.Now().Add(budget)
	cur := *rec
	var plan any
	if json.Unmarshal(cur.Plan, &plan) != nil || plan == nil {
		return rec
	}
	test := func(r *replayRec) bool {
		res := tryReplay(bin, r, workDir, tier)
		_, ok := violOf(res, class)
		return ok && res.Infra == ""
	}
	testPlan := func(p any) bool {
		c := cur
		c.Plan, _ = json.Marshal(p)
		return test(&c)
	}
	// the all-zero tape ("first runnable by name") often suffices
	if cur.Tape != nil && len(cur.Tape) > 0 {
		c := cur
		c.Tape = []uint32{}
		if test(&c) {
			cur = c
		}
	}
	for pass := 0; pass < 6 && time.Now().Before(deadline); pass++ {
		before := planSize(plan)
		arrays, _ := jpaths(plan)
		sort.SliceStable(arrays, func(i, j int) bool {
			return len(jget(plan, arrays[i]).([]any)) > len(jget(plan, arrays[j]).([]any))
		})
		for _, ap := range arrays {
			arr, ok := jget(plan, ap).([]any)
			if !ok || len(arr) == 0 {
				continue
			}
			for chunk := len(arr); chunk >= 1 && time.Now().Before(deadline); {
				arr = jget(plan, ap).([]any)
				n := len(arr)
				if n == 0 {
					break
				}
				if chunk > n {
					chunk = n
				}
				nchunks := (n + chunk - 1) / chunk
				mk := func(i int) any {
					s, e := i*chunk, i*chunk+chunk
					if e > n {
						e = n
					}
					na := append(append([]any{}, arr[:s]...), arr[e:]...)
					return jset(plan, ap, na)
				}
				k := firstOK(nchunks, func(i int) bool { return testPlan(mk(i)) }, deadline)
				if k >= 0 {
					plan = mk(k)
					cur.Plan, _ = json.Marshal(plan)
					continue // same chunk size again
				}
				if chunk == 1 {
					break
				}
				chunk /= 2
			}
		}
		_, scalars := jpaths(plan)
		var cands []any
		for _, sp := range scalars {
			switch x := jget(plan, sp).(type) {
			case float64:
				if x != 0 {
					cands = append(cands, jset(plan, sp, float64(0)))
					if x > 1 || x < -1 {
						cands = append(cands, jset(plan, sp, float64(int64(x/2))))
					}
					if x > 0 {
						cands = append(cands, jset(plan, sp, x-1))
					}
				}
			case bool:
				if x {
					cands = append(cands, jset(plan, sp, false))
				}
			case string:
				if len(x) > 0 {
					cands = append(cands, jset(plan, sp, ""))
					if len(x) > 1 {
						cands = append(cands, jset(plan, sp, x[:len(x)/2]), jset(plan, sp, x[len(x)/2:]))
					}
				}
			}
		}
		// scalars: accept greedily, re-deriving candidates only per pass
		for len(cands) > 0 && time.Now().Before(deadline) {
			k := firstOK(len(cands), func(i int) bool { return testPlan(cands[i]) }, deadline)
			if k < 0 {
				break
			}
			plan = cands[k]
			cur.Plan, _ = json.Marshal(plan)
			// remaining candidates were derived from the old plan: restart the pass
			break
		}
		if planSize(plan) >= before {
			break
		}
	}
	// tape: truncate / zero blocks
	if cur.Tape != nil && len(cur.Tape) > 0 {
		for time.Now().Before(deadline) {
			changed := false
			n := len(cur.Tape)
			for _, cut := range []int{n / 2, n * 3 / 4, n * 9 / 10} {
				c := cur
				c.Tape = append([]uint32{}, cur.Tape[:cut]...)
				if cut < n && test(&c) {
					cur = c
					changed = true
					break
				}
			}
			if !changed {
				break
			}
		}
		for blk := len(cur.Tape) / 2; blk >= 8 && time.Now().Before(deadline); blk /= 2 {
			for s := 0; s < len(cur.Tape) && time.Now().Before(deadline); s += blk {
				c := cur
				c.Tape = append([]uint32{}, cur.Tape...)
				nz := false
				for k := s; k < s+blk && k < len(c.Tape); k++ {
					if c.Tape[k] != 0 {
						nz = true
					}
					c.Tape[k] = 0
				}
				if nz && test(&c) {
					cur = c
				}
			}
		}
	}
	return &cur
}

func reportViolation(prop, class string, r *runResult, bin, workDir, repoKey string, noShrink bool, base uint64, tier string) string {
	rec := &replayRec{Property: prop, Scenario: r.scenario, Seed: r.Seed, Plan: r.Plan, Tape: r.Tape, Tree: repoKey}
	for _, sc := range props[prop].Scenarios {
		if sc.Name == r.scenario {
			rec.Params = sc.Params
		}
	}
	if r.Plan == nil {
		// crashed run: re-derive the plan from the seed
		res := tryReplay(bin, rec, workDir, tier)
		if res.Plan != nil {
			rec.Plan = res.Plan
		}
	}
	if class == "race" {
		// A race report comes from the pass-through (-race) auxiliary: real parallelism, not replayable by
		// construction. The file carries the plan, the seed and the detector's report; --replay re-runs
		// the plan a number of times under the race detector.
		rec.Signature = class
		for _, vv := range r.Viol {
			if vv.Class == class {
				rec.Detail = vv.Detail
			}
		}
		rec.Tape = nil
		return writeReplay(prop, class, r.Seed, rec)
	}
	final := rec
	// the recorded run must reproduce in a fresh process
	first := tryReplay(bin, rec, workDir, tier)
	v0, ok0 := violOf(first, class)
	if !ok0 {
		fmt.Printf("INFRA: replay of seed %d (%s) did not reproduce class %s in a fresh process (got %+v %s)\n", r.Seed, r.scenario, class, first.Viol, first.Infra)
		os.Exit(2)
	}
	if !noShrink && rec.Plan != nil {
		s := shrink(bin, rec, class, workDir, tier, 100*time.Second)
		if res := tryReplay(bin, s, workDir, tier); res.Infra == "" {
			if v, ok := violOf(res, class); ok {
				res2 := tryReplay(bin, s, workDir, tier)
				if _, ok2 := violOf(res2, class); ok2 && res2.Hash == res.Hash {
					final = s
					v0 = v
					first = res
				}
			}
		}
	}
	final.Signature = class
	final.Detail = v0.Detail
	final.LogHash = first.Hash
	final.Trace = first.Trace
	final.History = first.History
	if first.Tape != nil {
		final.Tape = first.Tape
	}
	return writeReplay(prop, class, r.Seed, final)
}

func writeReplay(prop, class string, seed uint64, final *replayRec) string {
	dir := filepath.Join(verifDir, "replays", prop)
	os.MkdirAll(dir, 0o755)
	name := fmt.Sprintf("%016x-%s.json", seed, strings.Map(func(c rune) rune {
		if c >= 'a' && c <= 'z' || c >= '0' && c <= '9' || c == '.' || c == '_' {
			return c
		}
		return '-'
	}, class))
	path := filepath.Join(dir, name)
	b, _ := json.MarshalIndent(final, "", " ")
	os.WriteFile(path, b, 0o644)
	return path
}

func doReplay(prop, path string) int {
	b, err := os.ReadFile(path)
	if err != nil {
		infra("%v", err)
	}
	var rec replayRec
	if err := json.Unmarshal(b, &rec); err != nil {
		infra("replay file: %v", err)
	}
	if rec.Property != prop {
		infra("replay file is for %s", rec.Property)
	}
	bin, repoKey := ensureWorker(false)
	workDir, _ := os.MkdirTemp("", "verif-replay-")
	defer os.RemoveAll(workDir)
	if rec.Signature == "race" {
		rbin, _ := ensureWorker(true)
		rec.Tape = nil
		for try := 0; try < 40; try++ {
			j := &job{Property: rec.Property, Scenario: rec.Scenario, Replay: &rec, Tier: "thorough", Params: rec.Params}
			bo := runWorker(rbin, j, workDir, 300*time.Second, true)
			if bo.crash != nil {
				if v, ok := crashViolation(bo); ok {
					fmt.Printf("VIOLATION property=%s replay=%s\n  class=%s seed=%d (attempt %d)\n  %s\n", prop, path, v.Class, rec.Seed, try+1, strings.ReplaceAll(v.Detail, "\n", "\n  "))
					return 1
				}
				fmt.Println("INFRA: worker crashed:", tail(bo.stderr, 2000))
				return 2
			}
		}
		fmt.Printf("replay of %s: the race detector reported nothing in 40 attempts on this tree (%s)\n", path, repoKey)
		return 0
	}
	want := rec.Signature
	wantHash := rec.LogHash
	rec.Signature, rec.Detail, rec.LogHash, rec.Trace, rec.History = "", "", "", nil, nil
	res := tryReplay(bin, &rec, workDir, "quick")
	if res.Infra != "" {
		fmt.Println("INFRA:", res.Infra)
		return 2
	}
	if v, ok := violOf(res, want); ok {
		fmt.Printf("VIOLATION property=%s replay=%s\n  class=%s seed=%d\n  %s\n", prop, path, want, rec.Seed, strings.ReplaceAll(v.Detail, "\n", "\n  "))
		if wantHash != "" && res.Hash != wantHash && rec.Tree == repoKey {
			fmt.Printf("INFRA: replay diverged: event-log hash %s, recorded %s\n", res.Hash, wantHash)
			return 2
		}
		return 1
	}
	if len(res.Viol) > 0 {
		fmt.Printf("VIOLATION property=%s replay=%s\n  (different class than recorded %q) %+v\n", prop, path, want, res.Viol)
		return 1
	}
	fmt.Printf("replay of %s: no violation on this tree (recorded: %s on tree %s, this tree %s)\n", path, want, rec.Tree, repoKey)
	return 0
}

// selfTest: same seed => same event-log hash, across GOMAXPROCS and batch position.
func selfTest(prop string, base uint64, nworkers int) int {
	bin, _ := ensureWorker(false)
	workDir, _ := os.MkdirTemp("", "verif-self-")
	defer os.RemoveAll(workDir)
	type key struct {
		scen string
		idx  int
	}
	bad := 0
	total := 0
	var mu sync.Mutex
	var wg sync.WaitGroup
	sem := make(chan struct{}, nworkers)
	ids := []string{prop}
	if prop == "" || prop == "all" {
		ids = ids[:0]
		for id := range props {
			ids = append(ids, id)
		}
		sort.Strings(ids)
	}
	for _, id := range ids {
		pc := props[id]
		for _, sc := range pc.Scenarios {
			if sc.Race {
				continue
			}
			sc := sc
			id := id
			const n = 40
			hashes := map[key]map[string]bool{}
			record := func(rs []*runResult) {
				mu.Lock()
				for _, r := range rs {
					k := key{sc.Name, r.Index}
					if hashes[k] == nil {
						hashes[k] = map[string]bool{}
					}
					hashes[k][r.Hash+"|"+r.State+"|"+fmt.Sprint(len(r.Viol))] = true
				}
				mu.Unlock()
			}
			var swg sync.WaitGroup
			for _, gmp := range []string{"1", "4", "16"} {
				// (a) whole batch in one process
				swg.Add(1)
				sem <- struct{}{}
				go func(gmp string) {
					defer func() { <-sem; swg.Done() }()
					j := &job{Property: id, Scenario: sc.Name, Base: base, From: 0, To: n, Tier: "quick", Params: sc.Params}
					bo := runWorkerG(bin, j, workDir, gmp)
					record(bo.results)
				}(gmp)
				// (b) alone in fresh processes
				for i := 0; i < n; i += 4 {
					swg.Add(1)
					sem <- struct{}{}
					go func(gmp string, i int) {
						defer func() { <-sem; swg.Done() }()
						j := &job{Property: id, Scenario: sc.Name, Base: base, From: i, To: i + 1, Tier: "quick", Params: sc.Params}
						bo := runWorkerG(bin, j, workDir, gmp)
						record(bo.results)
					}(gmp, i)
				}
			}
			wg.Add(1)
			go func() {
				defer wg.Done()
				swg.Wait()
				mu.Lock()
				defer mu.Unlock()
				for k, hs := range hashes {
					total++
					if len(hs) != 1 {
						bad++
						fmt.Printf("SELFTEST MISMATCH %s/%s index %d: %v\n", id, k.scen, k.idx, hs)
					}
				}
			}()
		}
	}
	wg.Wait()
	fmt.Printf("selftest: %d (scenario,seed) pairs, each executed under GOMAXPROCS 1/4/16 in-batch and alone: %d mismatches\n", total, bad)
	if bad > 0 {
		return 2
	}
	return 0
}

func runWorkerG(bin string, j *job, workDir, gmp string) *batchOut {
	return runWorkerWith(bin, j, workDir, 300*time.Second, gmp, false)
}
