package main

var stubOS = []string{"stdin stream (simulated io.Reader with OS read() semantics)"}

var props = map[string]propCfg{
	"C06": {
		Scenarios: []scenCfg{
			{Name: "feed", Quick: 30000, Thorough: 2000000, Batch: 500},
		},
		Rule: "one evaluation = one seeded (byte stream, read() cut plan, fault plan) executed through the real Reader.feed and compared with a reference record splitter; " +
			"non-trivial = the stream was delivered in more than 3 read() results (so records straddle reads); distinct = different (record count, bytes consumed, number of reads) outcome signature",
		Assume: []string{"simulated reader follows OS semantics only: (n>0,nil) | (0,EOF) | (0,err) | (0,nil)<100 times in a row"},
		RealStub: map[string][]string{
			"real": {"Reader.feed", "util.EventBox"},
			"stub": stubOS,
		},
		QuickSecs: 100, ThorSecs: 1500,
	},
}
