package main

var stubOS = []string{"stdin stream (simulated io.Reader with OS read() semantics)"}

var props = map[string]propCfg{
	"C06": {
		Scenarios: []scenCfg{
			{Name: "feed", Quick: 30000, Thorough: 2000000, Batch: 500},
			{Name: "filter", Quick: 1500, Thorough: 100000, Batch: 100},
			{Name: "loop", Quick: 1500, Thorough: 100000, Batch: 100},
			{Name: "c08", Quick: 600, Thorough: 60000, Batch: 50},
		},
		Rule: "c08: interactive sessions with --header-lines/--tail and reload/reload-sync (total count and list vs the records of the loaded source). loop/filter: see C13/C07. feed: one evaluation = one seeded (byte stream, read() cut plan, fault plan) executed through the real Reader.feed and compared with a reference record splitter; " +
			"non-trivial = the stream was delivered in more than 3 read() results (so records straddle reads); distinct = different (record count, bytes consumed, number of reads) outcome signature",
		Assume: []string{"simulated reader follows OS semantics only: (n>0,nil) | (0,EOF) | (0,err) | (0,nil)<100 times in a row"},
		RealStub: map[string][]string{
			"real": {"Reader.feed", "util.EventBox"},
			"stub": stubOS,
		},
		QuickSecs: 100, ThorSecs: 1500,
	},
	"C13": {
		Scenarios: []scenCfg{
			{Name: "loop", Quick: 3000, Thorough: 200000, Batch: 100},
			{Name: "filter", Quick: 1200, Thorough: 80000, Batch: 100},
			{Name: "racer", Quick: 400, Thorough: 6000, Batch: 50, Race: true},
			{Name: "racefilter", Quick: 300, Thorough: 4000, Batch: 50, Race: true},
		},
		Rule: "racer (auxiliary, not replayable): the loop scenario's components in pass-through mode (yields are Gosched, 4 Ps) in a worker built with -race; the only oracle is the race detector. filter: whole simulated `fzf --filter` processes (real reader, poller, chunk list, matcher). loop: one evaluation = one simulated run of 1-3 loader tasks pushing through the real ChunkList while a coordinator task snapshots and issues Matcher.Reset requests to the real Matcher.Loop (1..32 partitions) under a seeded schedule; " +
			"distinct = distinct event-log hash (schedule trace + request/publish history); non-trivial = at least one preemption (a runnable goroutine was passed over for another) happened in the run",
		RealStub: map[string][]string{
			"real": {"ChunkList", "ChunkCache", "Pattern", "Matcher.Loop/scan", "Merger", "util.EventBox", "util.AtomicBool"},
			"stub": {"loader tasks and coordinator are played by the harness (the real Reader/coordinator run in the filter/sys harnesses)", "clock", "goroutine scheduler"},
		},
		QuickSecs: 100, ThorSecs: 1500,
	},
	"C04": {
		Scenarios: []scenCfg{
			{Name: "scan", Quick: 3000, Thorough: 200000, Batch: 100},
			{Name: "loop", Quick: 1500, Thorough: 100000, Batch: 100},
			{Name: "filter", Quick: 800, Thorough: 60000, Batch: 100},
		},
		Rule: "filter: whole `fzf --filter` processes: the order printed is the order of a sequential filter under the tiebreak list and scheme the command line asks for (incl. --scheme given after --tiebreak). loop: as C13, order of every published merger incl. sort toggles and merger-cache hits. scan: one evaluation = one (list, tail, partition count, sort/tac/tiebreak, queries, worker schedule, access pattern) tuple run through the real Matcher.scan and Merger and compared with one sequential global sort using an independent comparator; " +
			"distinct = distinct event-log hash; non-trivial = at least one preemption between partition workers",
		RealStub: map[string][]string{
			"real": {"ChunkList.Snapshot", "Matcher.scan/sliceChunks", "Pattern.Match", "ChunkCache", "Merger", "buildResult (trusted for the per-item rank key)"},
			"stub": {"goroutine scheduler", "clock"},
		},
		QuickSecs: 100, ThorSecs: 1500,
	},
	"C05": {
		Scenarios: []scenCfg{
			{Name: "purity", Quick: 4000, Thorough: 300000, Batch: 200},
			{Name: "scan", Quick: 1500, Thorough: 100000, Batch: 100},
			{Name: "filter", Quick: 1200, Thorough: 80000, Batch: 100},
			{Name: "loop", Quick: 1000, Thorough: 60000, Batch: 100},
		},
		Rule: "loop: as for C13 (what one search leaves in the chunk cache must not show in the next: same queries repeated with the sort flag flipping). filter: whole simulated filter processes on a list and on a seeded sub-list (output of the sub-list must be the full output restricted to it), order compared with rank keys computed from accurate match offsets. purity: one evaluation = a seeded sequence of MatchItem calls (items in seeded order on seeded workers) on scratch slabs with adversarial stale contents, each compared with an isolated evaluation (fresh item, nil slab); " +
			"scan: partitioned scans with pre-poisoned per-partition slabs, rank keys compared per item; non-trivial = at least one item matched; distinct = distinct outcome signature / event-log hash",
		RealStub: map[string][]string{
			"real": {"Pattern.MatchItem", "algo.* matchers", "util.Slab", "Matcher.scan", "buildResult"},
			"stub": {"goroutine scheduler (scan scenario)"},
		},
		QuickSecs: 100, ThorSecs: 1500,
	},
	"C07": {
		Scenarios: []scenCfg{
			{Name: "filter", Quick: 2500, Thorough: 150000, Batch: 100},
			{Name: "c09", Quick: 1200, Thorough: 100000, Batch: 50},
			{Name: "c07i", Quick: 1500, Thorough: 120000, Batch: 50},
		},
		Rule: "c07i: interactive sessions with --print-query / --expect / --print0 / --accept-nth (AWK and string delimiters) / --select-1 / --exit-0 / --query ending in enter, an expect key, print-query, accept-or-print-query, accept-non-empty, esc or ctrl-c: stdout records, their order and the exit status vs a framing model. c09: interactive sessions ending in accept: printed lines = the model's selection in selection order (or the current line), exit status 0/1. filter: one evaluation = one simulated `fzf --filter` process (real option parser, Run, reader, poller, matcher or streaming path, printer) with seeded option set, input, read() cut plan and worker schedule; stdout bytes and exit status compared with a framing model; " +
			"distinct = distinct event-log hash; non-trivial = at least one preemption",
		RealStub: map[string][]string{
			"real": {"ParseOptions", "Run (filter mode)", "Reader + poller", "ChunkList", "Matcher.scan", "Merger", "printer (os.Stdout redirected to a file)"},
			"stub": {"stdin pipe", "clock", "goroutine scheduler"},
		},
		QuickSecs: 100, ThorSecs: 1500,
	},
	"C18": {
		Scenarios: []scenCfg{
			{Name: "hist", Quick: 20000, Thorough: 1500000, Batch: 1000},
			{Name: "c18s", Quick: 600, Thorough: 60000, Batch: 50},
		},
		Rule: "c18s: sequences of whole simulated interactive sessions with --history (typing, ctrl-p/ctrl-n, enter/esc/ctrl-c, with and without a match): the file is rewritten iff the session exits with status <= 1 and a non-empty query. hist: one evaluation = a seeded sequence of sessions over one history file (initial content missing/empty/with or without trailing newline/longer than the limit), each session = --history/--history-size parsed by the real option parser in either order, then previous/next/edit steps and at most one submit, compared step by step and byte by byte with a list-of-strings model; non-trivial = at least one non-empty query was submitted",
		RealStub: map[string][]string{
			"real": {"History", "ParseOptions (--history, --history-size)", "file system (per-run temp dir)"},
			"stub": {"terminal actions prev-history/next-history/accept are replayed by the harness at object level (whole sessions run in the sys scenarios)"},
		},
		QuickSecs: 100, ThorSecs: 1200,
	},
	"C08": {
		Scenarios: []scenCfg{
			{Name: "c08", Quick: 1200, Thorough: 100000, Batch: 50},
			{Name: "loop", Quick: 1500, Thorough: 100000, Batch: 100, Params: map[string]int{"converge": 1}},
		},
		Rule: "c08: one evaluation = one simulated interactive session (real Run, coordinator, matcher, Terminal, LightRenderer; simulated tty/stdin/processes/clock) with a seeded history of typing, deletions, toggle-sort, exclude, reload/reload-sync at seeded instants relative to loading and searching; at each settle point the match list is compared with a fresh sequential filter of (loaded input - issued exclusions, current query); " +
			"loop: Matcher.Loop alone with adversarial request sequences, last publish must answer the last request; distinct = distinct event-log hash; non-trivial = at least one preemption",
		RealStub: map[string][]string{
			"real": {"ParseOptions", "Run (coordinator)", "Reader + poller", "ChunkList", "ChunkCache", "Matcher.Loop/scan", "Merger", "Terminal (action interpreter, render loop)", "LightRenderer (input decoder + escape generator)"},
			"stub": {"tty device + VT emulator", "stdin pipe", "child processes (reload commands) and their pipes", "signals", "clock", "goroutine scheduler"},
		},
		QuickSecs: 120, ThorSecs: 1800,
	},
	"C09": {
		Scenarios: []scenCfg{
			{Name: "c09", Quick: 1500, Thorough: 120000, Batch: 50},
			{Name: "keyb", Quick: 600, Thorough: 40000, Batch: 50},
		},
		Rule: "keyb: 1-8 keys from a table of 80 (function keys in both encodings, arrows with modifiers, editing keys, control and alt combinations, plain and multi-byte characters), each bound to put(<marker>), delivered in one write, key by key, or cut into seeded pieces with pauses: at rest the query is the markers in order (deliveries cut inside a key's sequence are counted, not judged); " +
			"c09: one evaluation = one simulated interactive session over a fully loaded list in which a seeded history of editing, navigation and selection actions (bound to keys, decoded by the real input decoder) is delivered; after each action (or burst) the session settles and (query, query cursor, list cursor, selection in selection order, limit) read from the real Terminal are compared with a reference editor/cursor/selection model whose result list comes from the sequential oracle; on accept the printed lines are compared with the model's selection; " +
			"distinct = distinct event-log hash; non-trivial = at least one preemption",
		RealStub: map[string][]string{
			"real": {"ParseOptions (--bind, --multi, --cycle, --layout, --height, --no-input)", "Run", "Terminal.Loop action interpreter", "LightRenderer input decoder", "matcher/merger", "printer"},
			"stub": {"tty device + VT emulator", "stdin", "clock", "goroutine scheduler"},
		},
		QuickSecs: 120, ThorSecs: 1800,
	},
	"C14": {
		Scenarios: []scenCfg{
			{Name: "c14", Quick: 1500, Thorough: 150000, Batch: 40},
		},
		Rule: "c14: one evaluation = one simulated interactive session with hostile items (wide, combining, control, invalid bytes, empty and very long lines), a seeded option set (layouts, borders, margins, padding, preview positions, header/footer, --height incl. 1..3 and adaptive, wrap, gaps, multi-line), geometry from 1x1 with resize storms, input = keys, mouse reports, bracketed paste, truncated CSI and arbitrary bytes split at arbitrary points, actions incl. execute / execute-silent / transform / reload / preview / become / ctrl-z with child processes of seeded behaviour, signals and tty hang-up, and a seeded way of ending; checked: no panic in any goroutine, fzf exits (ctrl-c probe), tty state / temp files / child processes audited at the instant Run returns, every byte written understood by the VT emulator; distinct = distinct event-log hash; non-trivial = Run returned",
		RealStub: map[string][]string{
			"real": {"ParseOptions", "Run", "Terminal (all of Loop, rendering, previewer, executeCommand)", "LightRenderer", "reader/matcher"},
			"stub": {"tty device + VT emulator", "stdin", "child processes, pipes, kill(2), process groups", "signals", "clock", "goroutine scheduler", "temp files: real files in a per-run TMPDIR"},
		},
		QuickSecs: 150, ThorSecs: 2400,
	},
	"C20": {
		Scenarios: []scenCfg{
			{Name: "c20", Quick: 1500, Thorough: 120000, Batch: 40},
		},
		Rule: "c20: one evaluation = one simulated interactive session with a preview template over {n} {q} {} {+n} (sometimes {f}), a seeded history of cursor moves, query edits, selections, refresh/toggle/change-preview, preview(...), window changes and resizes at seeded instants (inside the 100/500 ms windows of the previewer protocol), and preview child processes of seeded behaviour (instant, slow start, incremental, endless, silent, not startable, clear-screen code, failing, forking shell); invariant at every scheduler step: at most one preview process group alive un-killed; at every settle: the command that ran last has the argv of the state at settle and the pane holds what it emitted; at exit: nothing alive un-killed, no temp file; distinct = distinct event-log hash; non-trivial = more than one preview command was started",
		RealStub: map[string][]string{
			"real": {"Terminal previewer (three goroutines per command, version counters, killChan)", "render loop", "replacePlaceholder", "Terminal.Loop", "LightRenderer", "Run"},
			"stub": {"preview child processes, pipes, kill(2), process groups", "tty + VT emulator", "stdin", "clock", "goroutine scheduler"},
		},
		QuickSecs: 150, ThorSecs: 2400,
	},
	"C16": {
		Scenarios: []scenCfg{
			{Name: "c16", Quick: 1500, Thorough: 120000, Batch: 40},
			{Name: "c16d", Quick: 600, Thorough: 40000, Batch: 40},
		},
		Rule: "c16d: differential - the same seeded sequence of action lists (1-3 of ~55 actions each) goes to two otherwise identical sessions, once as POST bodies (each answered before the next), once through keys bound to them; after every list query, cursors, selection order, match list, sort/multi/search/prompt/header/input flags must agree. c16: one evaluation = one simulated interactive session with --listen (local / non-local address, with / without FZF_API_KEY, --listen-unsafe) and 1..15 simulated clients, some concurrent, sending requests whose class is known by construction (valid GET with limit/offset, valid POST, missing/zero/oversize/non-numeric/negative Content-Length, key absent/exact/prefix/suffix/case-variant/wrong/empty in four header spellings, wrong method/path/version, invalid or empty action list) or arbitrary bytes, with seeded fragmentation, stalls up to beyond the 10 s read timeout and early close at any byte, interleaved with keys; every connection left open must receive exactly one well-formed HTTP/1.1 response with matching Content-Length; class => status; the query must hold exactly the unique markers of the authorised valid POSTs that were answered 200, once each and in order; a final authorised GET must still be served; a non-local address without a key must refuse to start; distinct = distinct event-log hash; non-trivial = at least one POST took effect",
		RealStub: map[string][]string{
			"real": {"startHttpServer accept loop", "handleHttpRequest (hand-rolled parser, key comparison)", "parseSingleActionList", "Terminal.Loop server-action path", "dumpStatus"},
			"stub": {"listener and connections (buffered in-memory streams with deadlines on the fake clock)", "tty", "clock", "goroutine scheduler"},
		},
		QuickSecs: 150, ThorSecs: 2400,
	},
	"C15": {
		Scenarios: []scenCfg{
			{Name: "c15", Quick: 1500, Thorough: 120000, Batch: 40},
		},
		Rule: "c15: one evaluation = one simulated interactive session (layouts default/reverse/reverse-list, info default/inline/right/hidden, --header, --header-lines, --multi, unicode or ASCII glyphs, 14..100 columns x 6..36 rows with resizes) under a seeded history of typing, navigation and selection actions; after every action the bytes written by the real renderer, interpreted by the VT emulator, are parsed structurally and compared with the state: prompt row = prompt + query (or a window of it), info row counters = matched/total (selected), each list row in layout order = pointer glyph on exactly the current row, marker glyph on exactly the selected rows, the complete line when it fits or a piece of it with the ellipsis and within the width, empty rows beyond the results (stale rows from incremental redraw), header outside the list rows, nothing written past the right margin; distinct = distinct event-log hash; non-trivial = the list was not empty",
		RealStub: map[string][]string{
			"real": {"Terminal rendering (printPrompt/printInfo/printHeader/printList/printItem/printHighlighted, prevLines incremental redraw)", "resizeWindows", "LightRenderer/LightWindow drawing primitives", "Terminal.Loop"},
			"stub": {"tty device + VT emulator (own width table)", "stdin", "clock", "goroutine scheduler"},
		},
		QuickSecs: 150, ThorSecs: 2400,
	},
}
