//go:build verif

package fzf

// C08: interactive results converge to a fresh filter of the current query.

import (
	"fmt"
	"strings"

	"github.com/junegunn/fzf/src/zsim"
)

var c08Binds = []struct{ key, action string }{
	{"alt-s", "toggle-sort"},
	{"alt-r", "reload(GEN 1)"},
	{"alt-t", "reload(GEN 2)"},
	{"alt-y", "reload-sync(GEN 1)"},
	{"alt-x", "exclude"},
	{"alt-c", "clear-query"},
	{"alt-q", "change-query(ab)"},
	{"alt-w", "change-query(c)+reload(GEN 2)"},
	{"alt-n", "change-nth(2|1|)"},
	{"alt-p", "toggle-search"},
	{"alt-o", "search(ab)"},
	{"alt-m", "exclude-multi"},
	{"alt-e", "toggle"},
	// several edits in one key press: the query before and after has the same length
	{"alt-b", "backward-delete-char+put(b)"},
	{"alt-d", "beginning-of-line+delete-char+put(a)"},
	{"alt-f", "unix-word-rubout+put(ab)"},
	// search is disabled by the last action of a key whose earlier actions ask for a new search
	{"alt-g", "toggle-sort+toggle-search"},
	{"alt-h", "exclude+toggle-search"},
	{"alt-i", "put(a)+toggle-search"},
	// exclusions of different lines in quick succession (the cursor moves in between)
	{"alt-k", "down"},
	{"alt-l", "up"},
	{"alt-z", "down+exclude"},
}

func genDelay(r *zsim.Rng) int {
	return []int{0, 0, 0, 1, 3, 8, 15, 40, 90, 150, 400, 1200}[r.Intn(12)]
}

func genC08Plan(r *zsim.Rng) *sysPlan {
	p := &sysPlan{Match: genMatchCfg(r), Cols: r.Range(20, 120), Rows: r.Range(5, 50)}
	var n int
	switch r.Intn(6) {
	case 0:
		n = r.Intn(60)
	case 1, 2:
		n = r.Range(50, 400)
	case 3, 4:
		n = r.Range(300, 1500)
	default:
		n = r.Range(1000, 5000)
	}
	p.Lines = lineSpec{N: n, Seed: r.Seed53(), Shape: r.Intn(4)}
	for i := 0; i < 3; i++ {
		m := []int{0, r.Range(1, 150), r.Range(100, 1200), r.Range(1, 3000)}[r.Intn(4)]
		p.Gens = append(p.Gens, lineSpec{N: m, Seed: r.Seed53(), Shape: r.Intn(4)})
	}
	p.Gens[0] = p.Lines
	if r.Chance(1, 4) {
		p.NoStdin = true
		p.Args = append(p.Args, "--bind", "start:reload(GEN 0)")
	}
	for _, b := range c08Binds {
		p.Args = append(p.Args, "--bind", b.key+":"+b.action)
	}
	for i := r.Range(1, 8); i > 0; i-- {
		p.Reads = append(p.Reads, []int{-1, 1, r.Range(1, 300), r.Range(1, 5000), 65536}[r.Intn(5)])
		p.GapsMs = append(p.GapsMs, []int{0, 0, 2, 10, 30, 60, 150, 400}[r.Intn(8)])
	}
	for i := r.Range(1, 3); i > 0; i-- {
		ps := procSpec{}
		for k := r.Range(1, 5); k > 0; k-- {
			ps.Chunks = append(ps.Chunks, []int{1, 10, 100, 101, 500, 100000}[r.Intn(6)])
			ps.DelaysMs = append(ps.DelaysMs, []int{0, 0, 5, 20, 60, 150, 500}[r.Intn(7)])
		}
		if r.Chance(1, 10) {
			ps.Exit = 1
		}
		if r.Chance(1, 15) {
			ps.StartErr = true
		}
		p.GenProc = append(p.GenProc, ps)
	}
	p.NumCPU = r.Intn(5)
	if r.Chance(1, 3) {
		p.Multi = -1
	}
	if r.Chance(1, 6) {
		p.Header = r.Range(1, 3)
	}
	if r.Chance(1, 6) {
		p.Tail = []int{1, 50, 100, 150, 1000}[r.Intn(5)]
	}
	if r.Chance(1, 8) {
		// fields cut at a string delimiter, the search restricted to some of them; records whose last field
		// ends in delimiters (one trailing delimiter is not part of what is searched - however often one searches)
		p.Args = append(p.Args, "--delimiter", ",", "--nth", pick(r, "2..", "2", "-1", "1..2"))
		for k := r.Range(3, 40); k > 0; k-- {
			var b strings.Builder
			for f := r.Range(1, 4); f > 0; f-- {
				for l := r.Range(0, 3); l > 0; l-- {
					b.WriteByte(lineAlphabet[r.Intn(len(lineAlphabet))])
				}
				b.WriteString([]string{",", ",", ",,", ", ,", ""}[r.Intn(5)])
			}
			p.Lines.Extra = append(p.Lines.Extra, b.String())
		}
		p.Gens[0] = p.Lines
		if r.Bool() {
			// change-nth(2|1|) all the way round: the third press brings back the fields given on the command line
			p.Events = append(p.Events, sysEvent{Kind: "settle"}, sysEvent{Kind: "keys", Keys: string(lineAlphabet[r.Intn(len(lineAlphabet))])}, sysEvent{Kind: "settle"})
			for k := 0; k < 3; k++ {
				p.Events = append(p.Events, sysEvent{Kind: "keys", Keys: "alt-n", DelayMs: genDelay(r)}, sysEvent{Kind: "settle"})
			}
		}
	}
	if r.Chance(1, 8) {
		// aimed at the hand-over at the end of a reload-sync: lines are excluded, a slow reload-sync replaces
		// the input, and the user goes on typing (or re-sorting) while it is still being read
		p.Events = append(p.Events, sysEvent{Kind: "settle"}, sysEvent{Kind: "keys", Keys: "alt-x"}, sysEvent{Kind: "settle"},
			sysEvent{Kind: "keys", Keys: "alt-y"})
		for k := r.Range(1, 3); k > 0; k-- {
			p.Events = append(p.Events, sysEvent{Kind: "keys", DelayMs: []int{1, 5, 30, 100}[r.Intn(4)], Keys: pick(r, "a", "b", "alt-s", "bspace", "alt-c")})
		}
		p.GenProc = []procSpec{{Chunks: []int{r.Range(1, 50)}, DelaysMs: []int{[]int{20, 60, 150, 500}[r.Intn(4)]}}}
		if p.Gens[1].N < 3 {
			p.Gens[1].N = r.Range(3, 200)
		}
	}
	if r.Chance(1, 8) {
		// aimed at requests that meet in the coordinator's mailbox (wave 18): the input is still trickling in
		// (the coordinator sleeps between looks at its mailbox, --tail trims now and then), and several
		// different lines are excluded within a few milliseconds
		p.Reads, p.GapsMs = nil, nil
		for i := r.Range(2, 6); i > 0; i-- {
			p.Reads = append(p.Reads, r.Range(20, 400))
			p.GapsMs = append(p.GapsMs, []int{10, 30, 60, 150}[r.Intn(4)])
		}
		if p.Lines.N < 60 {
			p.Lines.N = r.Range(60, 600)
			p.Gens[0] = p.Lines
		}
		if r.Bool() {
			p.Tail = []int{5, 20, 50, 100}[r.Intn(4)]
		}
		p.Events = append(p.Events, sysEvent{Kind: "keys", Keys: "alt-k", DelayMs: r.Range(50, 400)})
		for k := r.Range(3, 12); k > 0; k-- {
			p.Events = append(p.Events, sysEvent{Kind: "keys", Keys: pick(r, "alt-x", "alt-z", "alt-z", "alt-z", "alt-k", "alt-l"), DelayMs: []int{0, 0, 1, 3, 8, 15, 40, 90}[r.Intn(8)]})
		}
		}
	// query edits bound to events of the key loop itself: backward-eof (backspace on an empty query), jump and
	// jump-cancel (the key that ends jump mode)
	evBinds := r.Chance(1, 5)
	if evBinds {
		edit := func() string { return pick(r, "change-query(ab)", "put(a)", "change-query(c)", "put(b)+put(a)") }
		p.Args = append(p.Args, "--bind", "backward-eof:"+edit(), "--bind", "alt-j:jump", "--bind", "jump:"+edit(), "--bind", "jump-cancel:"+edit())
	}
	nev := r.Range(1, 22)
	for i := 0; i < nev; i++ {
		ev := sysEvent{DelayMs: genDelay(r), Kind: "keys"}
		if r.Chance(1, 12) {
			// a bracketed paste that carries control characters: the query is edited in place and may end up as
			// long as it was before the paste
			payload := pick(r, "\x04b", "\x01\x04a", "\x7fb", "\x01\x04b\x05", "a\x7fb", "\x17ab")
			p.Events = append(p.Events, sysEvent{Kind: "keys", Keys: pick(r, "ctrl-a", "a", "b", "ctrl-e")},
				sysEvent{Kind: "raw", Raw: []byte("\x1b[200~" + payload + "\x1b[201~"), DelayMs: genDelay(r)})
			continue
		}
		if evBinds && r.Chance(1, 3) {
			switch r.Intn(3) {
			case 0:
				p.Events = append(p.Events, sysEvent{Kind: "keys", Keys: "ctrl-u"}, sysEvent{Kind: "keys", Keys: "bspace", DelayMs: genDelay(r)})
			default:
				p.Events = append(p.Events, sysEvent{Kind: "keys", Keys: "alt-j", DelayMs: genDelay(r)}, sysEvent{Kind: "keys", Keys: pick(r, "a", "s", "d", "space", "x", "0"), DelayMs: genDelay(r)})
			}
			continue
		}
		switch k := r.Intn(20); {
		case k < 9:
			ev.Keys = string(lineAlphabet[r.Intn(len(lineAlphabet))])
			if r.Chance(1, 8) {
				ev.Keys = []string{"!", "'", "^", "$", "space", "|"}[r.Intn(6)]
			}
		case k < 12:
			ev.Keys = "bspace"
		case k < 13:
			ev.Keys = []string{"ctrl-u", "ctrl-w"}[r.Intn(2)]
		case k < 19:
			ev.Keys = c08Binds[r.Intn(len(c08Binds))].key
			if (ev.Keys == "alt-p" || ev.Keys == "alt-g" || ev.Keys == "alt-h" || ev.Keys == "alt-i") && r.Bool() {
				// the query that gets frozen is only well defined once the coordinator has seen the latest one
				p.Events = append(p.Events, sysEvent{Kind: "settle"})
			}
		default:
			ev.Kind = "settle"
		}
		p.Events = append(p.Events, ev)
	}
	return p
}

func runC08(c *runCtx) {
	plan := &sysPlan{}
	if !c.loadPlan(plan) {
		plan = genC08Plan(c.rng)
	}
	c.plan = plan
	r := newSysRun(c, plan)
	r.onSettle = c08Settle
	defer r.cleanup()
	r.start()
	ok := r.drive()
	if ok {
		r.finish()
	} else {
		r.sim.Stop()
	}
	commonExitChecks(r)
	if st := r.state(); st != nil {
		c.state = fmt.Sprintf("q=%d m=%d t=%d ev=%d", len(st.Query), len(st.Matches), st.Count, len(plan.Events))
	}
}

// bound actions of the plan: key name -> action string
func boundActions(args []string) map[string]string {
	m := map[string]string{}
	for i := 0; i+1 < len(args); i++ {
		if args[i] == "--bind" {
			kv := strings.SplitN(args[i+1], ":", 2)
			if len(kv) == 2 {
				m[kv[0]] = kv[1]
			}
		}
	}
	return m
}

func c08Settle(r *sysRun, busy bool, final bool) {
	c := r.c
	st := r.state()
	if st == nil {
		if !busy {
			c.violate("c08.no_terminal", "terminal never produced a result list")
		}
		return
	}
	if busy || st.Reading {
		// input has not ended (or periodic activity continues): the convergence claim does not apply yet
		c.count("settle.busy", 1)
		return
	}
	L, complete := r.loadedInput()
	if !complete {
		c.count("settle.input_incomplete", 1)
		return
	}
	plan := r.plan
	// model: delivered events so far -> sort flag, last issued reload
	binds := boundActions(plan.baseArgs())
	sortNow := plan.Match.Sort
	sortKnown, afterJump := true, false
	nthKnown, nthPresses := true, 0
	delivered := 0
	for i := range plan.Events {
		ev := plan.Events[i]
		if ev.Kind == "settle" {
			delivered++
			if delivered >= r.settleN && !final {
				break
			}
			continue
		}
		if ev.Kind == "keys" {
			for _, k := range strings.Fields(ev.Keys) {
				if a, ok := binds[k]; ok && strings.Contains(a, "toggle-sort") {
					if afterJump {
						// the key that follows `jump` ends jump mode and is not executed - if jump mode was
						// entered (it is not on an empty list): either way is fine
						sortKnown = false
					}
					sortNow = !sortNow
				}
				if a, ok := binds[k]; ok && a == "change-nth(2|1|)" {
					if afterJump {
						nthKnown = false
					}
					nthPresses++
				}
				afterJump = binds[k] == "jump"
			}
		}
	}
	if !sortKnown {
		sortNow = st.Sort
	}
	if nthKnown {
		// change-nth(2|1|) goes round: field 2, field 1, then what the command line gave
		spec := []string{argValue(plan.Args, "--nth"), "2", "1"}[nthPresses%3]
		var wantNth []Range
		if spec != "" {
			wantNth, _ = splitNth(spec)
		}
		if !compareRanges(wantNth, r.t.nthCurrent) {
			c.violate("c08.nth_state", "after %d presses of the key bound to change-nth(2|1|) the fields searched are %v, the cycle is at %q", nthPresses, r.t.nthCurrent, spec)
			return
		}
	}
	h := plan.Header
	if h > len(L) {
		h = len(L)
	}
	items := make([]frozenItem, 0, len(L))
	for i, l := range L[h:] {
		items = append(items, frozenItem{Index: int32(i), Text: l})
	}
	total := len(items)
	if plan.Tail > 0 && len(items) > plan.Tail {
		items = items[len(items)-plan.Tail:]
		total = len(items)
	}
	// exclusions issued against the loaded revision
	major := r.t.merger.Revision().major
	deny := map[int32]bool{}
	var lastCmd string
	for _, s := range r.searches {
		if s.command != "" {
			lastCmd = s.command
		}
		if s.revision.major == major {
			for _, d := range s.denylist {
				deny[d] = true
			}
		}
	}
	if len(deny) > 0 {
		kept := items[:0:0]
		for _, it := range items {
			if !deny[it.Index] {
				kept = append(kept, it)
			}
		}
		items = kept
		c.count("probe.exclusions_in_effect", 1)
	}
	mc := plan.Match
	mc.Sort = sortNow
	mc.nth = r.t.nthCurrent
	mc.delim = argValue(plan.Args, "--delimiter")
	// effective query: the search(...) override while one is active; the frozen query while search is disabled
	effQuery := st.Query
	if r.t.inputOverride != nil {
		effQuery = string(*r.t.inputOverride)
		c.count("probe.search_override_active", 1)
	} else if st.Paused {
		fq, known := c08FrozenQuery(r, final)
		if !known {
			c.count("settle.paused_unknown", 1)
			return
		}
		effQuery = fq
		c.count("probe.search_disabled", 1)
	}
	if len(mc.nth) > 0 {
		c.count("probe.nth_changed", 1)
	}
	wantRes := freshFilter(items, effQuery, mc)
	want := indicesOf(wantRes)
	c.count("settle.checked", 1)
	if len(want) > 0 {
		c.count("nontrivial", 1)
	}
	cfg := fmt.Sprintf("effective query %q shown query %q nth=%v paused=%v", effQuery, st.Query, mc.nth, st.Paused) + fmt.Sprintf(" sort=%v loaded=%d excluded=%d tail=%d header=%d", sortNow, len(L), len(deny), plan.Tail, plan.Header)
	if d := firstDiff(st.Matches, want); d >= 0 {
		class := "c08.order"
		if firstDiff(sortedCopy(st.Matches), sortedCopy(want)) >= 0 {
			class = "c08.results"
		}
		// rank keys of the first item that is out of place, as fzf holds them and as a fresh evaluation gives them
		keys := ""
		if d < len(st.Matches) && r.t.merger != nil && d < r.t.merger.Length() {
			got := r.t.merger.Get(d)
			keys = fmt.Sprintf("; item %d is held with rank key %v", got.item.Index(), got.points)
			for _, w := range wantRes {
				if w.Index == got.item.Index() {
					keys += fmt.Sprintf(", a fresh evaluation gives %v", w.Points)
				}
			}
			if pat := r.t.merger.pattern; pat != nil {
				if res, offs, _ := pat.MatchItem(got.item, true, nil); res != nil {
					keys += fmt.Sprintf(", fzf's own pattern on its own item now gives %v offsets %v (text %q, forward=%v withPos=%v)", res.points, offs, got.item.text.ToString(), pat.forward, pat.withPos)
				}
			}
		}
		c.violate(class, "after settling the match list has %d entries, a fresh filter gives %d; first difference at %d: shown …%v… fresh …%v…%s (%s)\n%s", len(st.Matches), len(want), d, around(st.Matches, d), around(want, d), keys, cfg, blockedStacks())
	}
	if st.Count != total {
		c.violate("c08.total", "total count shown %d, loaded input has %d records (%s)", st.Count, total, cfg)
	}
	if st.Sort != sortNow {
		c.violate("c08.sort_state", "sort flag is %v after the delivered toggles, expected %v", st.Sort, sortNow)
	}
	// issued requests are honoured: the reload command issued last is the one whose output is loaded
	if lastCmd != "" {
		var lastSpawn string
		for _, p := range r.os.Snapshot() {
			if strings.HasPrefix(p.Command, "GEN") {
				lastSpawn = p.Command
			}
		}
		if plan.NoStdin && lastSpawn == "GEN 0" && lastCmd != "GEN 0" || lastSpawn != lastCmd && !(plan.NoStdin && lastSpawn == "GEN 0") {
			c.violate("c08.reload_lost", "the terminal last issued reload %q but the input loaded comes from %q", lastCmd, lastSpawn)
		}
	}
}

// commonExitChecks: C14 hygiene + exit status sanity, shared by all sys scenarios.
func commonExitChecks(r *sysRun) {
	c := r.c
	r.collectOutput()
	if unk := r.tty.Unknown; len(unk) > 0 {
		panic("zsim: INFRA VT emulator met sequences it does not know: " + strings.Join(unk, ", "))
	}
	if !r.done {
		return
	}
	for _, a := range r.auditAt {
		if strings.HasPrefix(a, grandchildMark) {
			c.violate("exit.signal_leaves_grandchild", "%s", strings.TrimPrefix(a, grandchildMark))
			continue
		}
		c.violate("exit.unclean", "at the instant fzf returned (exit %d): %s", r.code, a)
	}
	switch r.code {
	case ExitOk, ExitNoMatch, ExitInterrupt, ExitError, ExitBecome:
	default:
		c.violate("exit.code", "undocumented exit status %d", r.code)
	}
	if r.tty.WritesClosed > 0 {
		c.count("probe.writes_after_close", 1)
	}
}

func init() {
	scenarios["c08"] = scenario{bubble: true, run: runC08}
}

// c08FrozenQuery: the query in effect while search is disabled = the query line at the moment it was
// disabled, provided the session had settled right before (otherwise which query the coordinator had
// seen last is timing-dependent and nothing is compared).
func c08FrozenQuery(r *sysRun, final bool) (string, bool) {
	m := &uiModel{}
	binds := boundActions(r.plan.baseArgs())
	paused := false
	frozen := ""
	known := true
	var override *string
	sawReload := false
	firstIsSettle := len(r.plan.Events) > 0 && r.plan.Events[0].Kind == "settle"
	settles := 0
	prevSettle := false
	for i := range r.plan.Events {
		ev := r.plan.Events[i]
		if ev.Kind == "settle" {
			settles++
			if settles >= r.settleN && !final {
				break
			}
			prevSettle = true
			continue
		}
		if ev.Kind != "keys" {
			prevSettle = false
			continue
		}
		for _, k := range strings.Fields(ev.Keys) {
			act, bound := binds[k]
			before := string(m.query)
			switch {
			case bound && strings.Contains(act, "toggle-search"):
				paused = !paused
				if paused {
					// what stays in effect is the query searched last: the search(...) override if one is active
					frozen = string(m.query)
					if override != nil {
						frozen = *override
					}
					// (whether or not the coordinator has already seen that query: the string in effect is the one
					// the query line held when search was switched off)
					_ = prevSettle
				}
			case bound && strings.HasPrefix(act, "search("):
				x := strings.TrimSuffix(strings.TrimPrefix(act, "search("), ")")
				override = &x
				if paused {
					frozen = x
				}
			case bound:
				if strings.Contains(act, "reload") {
					// the coordinator forgets the query it keeps for a disabled search when the input is
					// replaced; combined with loading still in progress the outcome depends on timing
					sawReload = true
				}
				if paused && strings.Contains(act, "reload") {
					// a reload while search is disabled makes the coordinator drop its frozen query; what is
					// searched then is not specified anywhere – nothing is compared
					known = false
				}
				for _, a := range strings.Split(act, "+") {
					if strings.HasPrefix(a, "change-query") || a == "clear-query" || strings.HasPrefix(a, "put(") || isEditAction(a) {
						m.apply(a)
					}
				}
			case k == "bspace":
				m.apply("backward-delete-char")
			case k == "ctrl-u":
				m.apply("unix-line-discard")
			case k == "ctrl-w":
				m.apply("unix-word-rubout")
			case k == "space":
				m.apply("char: ")
			case len([]rune(k)) == 1:
				m.apply("char:" + k)
			}
			if string(m.query) != before {
				override = nil // editing the query ends the override
			}
		}
		prevSettle = false
	}
	return frozen, paused && known && !sawReload && firstIsSettle && !r.plan.NoStdin
}
