package fzf

// keyb: what the input decoder makes of keys does not depend on how the bytes arrive. Every key of a
// seeded sequence is bound to put(<its marker>); the bytes of the whole sequence are written to the
// terminal in one piece, key by key, or cut at seeded places with seeded pauses (a slow line). At rest the
// query must hold the markers of the keys, each once, in order - the action list a user's keys stand for is
// the same however the terminal driver happened to batch them (C09: "for any sequence of actions": the
// scenarios drive actions through keys).

import (
	"fmt"
	"strings"

	"github.com/junegunn/fzf/src/zsim"
)

// name as --bind takes it, bytes as a terminal sends them (xterm / VT220 forms; several keys have two)
var keybTable = []struct{ name, bytes string }{
	{"f1", "\x1bOP"}, {"f2", "\x1bOQ"}, {"f3", "\x1bOR"}, {"f4", "\x1bOS"},
	{"f1", "\x1b[11~"}, {"f2", "\x1b[12~"}, {"f3", "\x1b[13~"}, {"f4", "\x1b[14~"},
	{"f5", "\x1b[15~"}, {"f6", "\x1b[17~"}, {"f7", "\x1b[18~"}, {"f8", "\x1b[19~"},
	{"f9", "\x1b[20~"}, {"f10", "\x1b[21~"}, {"f11", "\x1b[23~"}, {"f12", "\x1b[24~"},
	{"up", "\x1b[A"}, {"down", "\x1b[B"}, {"right", "\x1b[C"}, {"left", "\x1b[D"},
	{"up", "\x1bOA"}, {"down", "\x1bOB"},
	{"home", "\x1b[H"}, {"end", "\x1b[F"}, {"home", "\x1b[1~"}, {"end", "\x1b[4~"},
	{"insert", "\x1b[2~"}, {"delete", "\x1b[3~"}, {"page-up", "\x1b[5~"}, {"page-down", "\x1b[6~"},
	{"shift-tab", "\x1b[Z"}, {"tab", "\t"},
	{"shift-up", "\x1b[1;2A"}, {"shift-down", "\x1b[1;2B"}, {"shift-right", "\x1b[1;2C"}, {"shift-left", "\x1b[1;2D"},
	{"alt-up", "\x1b[1;3A"}, {"alt-down", "\x1b[1;3B"}, {"alt-right", "\x1b[1;3C"}, {"alt-left", "\x1b[1;3D"},
	{"alt-shift-up", "\x1b[1;4A"}, {"alt-shift-down", "\x1b[1;4B"}, {"alt-shift-right", "\x1b[1;4C"}, {"alt-shift-left", "\x1b[1;4D"},
	{"shift-delete", "\x1b[3;2~"}, {"ctrl-delete", "\x1b[3;5~"},
	{"alt-bspace", "\x1b\x7f"}, {"bspace", "\x7f"}, {"alt-enter", "\x1b\r"}, {"alt-space", "\x1b "},
	{"ctrl-a", "\x01"}, {"ctrl-e", "\x05"}, {"ctrl-k", "\x0b"}, {"ctrl-u", "\x15"}, {"ctrl-w", "\x17"}, {"ctrl-y", "\x19"},
	{"ctrl-space", "\x00"}, {"ctrl-]", "\x1d"}, {"ctrl-^", "\x1e"}, {"ctrl-/", "\x1f"}, {"ctrl-\\", "\x1c"},
	{"ctrl-alt-a", "\x1b\x01"}, {"ctrl-alt-k", "\x1b\x0b"},
	{"alt-a", "\x1ba"}, {"alt-z", "\x1bz"}, {"alt-A", "\x1bA"}, {"alt-0", "\x1b0"}, {"alt-/", "\x1b/"},
	{"x", "x"}, {"Q", "Q"}, {"1", "1"}, {"~", "~"}, {"é", "é"}, {"日", "日"},
}

type keybPlan struct {
	sysPlan
	Keys []int `json:"keyb"` // indices into keybTable, in the order typed
	// Mode: 0 the whole sequence in one write, 1 key by key with pauses, 2 cut at Cuts with pauses
	Mode int   `json:"mode"`
	Cuts []int `json:"cuts,omitempty"`
	Gap  int   `json:"gap_ms,omitempty"`
}

func genKeybPlan(r *zsim.Rng) *keybPlan {
	p := &keybPlan{}
	p.Match = genMatchCfg(r)
	p.Cols, p.Rows = r.Range(40, 100), r.Range(8, 30)
	p.Lines = lineSpec{N: r.Range(1, 30), Seed: r.Seed53(), Shape: r.Intn(4)}
	for i := r.Range(1, 9); i > 0; i-- {
		p.Keys = append(p.Keys, r.Intn(len(keybTable)))
	}
	p.Mode = r.Intn(3)
	p.Gap = []int{1, 5, 30, 120}[r.Intn(4)]
	for i := r.Range(1, 4); i > 0; i-- {
		p.Cuts = append(p.Cuts, r.Range(1, 40))
	}
	return p
}

func runKeyb(c *runCtx) {
	plan := &keybPlan{}
	if !c.loadPlan(plan) {
		plan = genKeybPlan(c.rng)
	}
	c.plan = plan
	sp := plan.sysPlan
	sp.Args = nil
	marker := map[string]string{}
	var want strings.Builder
	var all []byte
	var perKey [][]byte
	for _, k := range plan.Keys {
		k = ((k % len(keybTable)) + len(keybTable)) % len(keybTable)
		e := keybTable[k]
		if _, ok := marker[e.name]; !ok {
			marker[e.name] = fmt.Sprintf("<%d>", len(marker))
			sp.Args = append(sp.Args, "--bind", e.name+":put("+marker[e.name]+")")
		}
		want.WriteString(marker[e.name])
		all = append(all, e.bytes...)
		perKey = append(perKey, []byte(e.bytes))
	}
	sp.Events = []sysEvent{{Kind: "settle"}}
	switch ((plan.Mode % 3) + 3) % 3 {
	case 0:
		sp.Events = append(sp.Events, sysEvent{Kind: "raw", Raw: all})
		c.count("probe.one_write", 1)
	case 1:
		for _, b := range perKey {
			sp.Events = append(sp.Events, sysEvent{Kind: "raw", Raw: b, DelayMs: 150}, sysEvent{Kind: "settle"})
		}
	default:
		// a slow line: the bytes come in pieces, cut anywhere - also in the middle of a key's sequence; a
		// pause inside a sequence is shorter than the decoder's patience for the rest of it
		rest := all
		for _, n := range plan.Cuts {
			n = clampInt(n, 1, 64)
			if n >= len(rest) {
				break
			}
			sp.Events = append(sp.Events, sysEvent{Kind: "raw", Raw: rest[:n], DelayMs: clampInt(plan.Gap, 0, 200)})
			rest = rest[n:]
		}
		sp.Events = append(sp.Events, sysEvent{Kind: "raw", Raw: rest, DelayMs: clampInt(plan.Gap, 0, 200)})
		c.count("probe.cut_writes", 1)
	}
	sp.Events = append(sp.Events, sysEvent{Kind: "settle"})
	r := newSysRun(c, &sp)
	var got *string
	r.onSettle = func(r *sysRun, busy bool, final bool) {
		if st := r.state(); st != nil && !busy && final {
			q := st.Query
			got = &q
		}
	}
	defer r.cleanup()
	if !r.start() {
		c.violate("keyb.start", "fzf did not start with %v", sp.Args)
		return
	}
	ok := r.drive()
	if ok && !r.done {
		r.finish()
	} else {
		r.sim.Stop()
	}
	commonExitChecks(r)
	if got == nil {
		c.count("inconclusive", 1)
		return
	}
	if ((plan.Mode%3)+3)%3 == 2 {
		// a sequence cut in the middle relies on the decoder waiting for the rest: how long it waits is not
		// specified - only the uncut deliveries are compared exactly
		cutInside := false
		pos := 0
		bounds := map[int]bool{0: true}
		for _, b := range perKey {
			pos += len(b)
			bounds[pos] = true
		}
		at := 0
		for _, ev := range sp.Events {
			if ev.Kind == "raw" {
				at += len(ev.Raw)
				if !bounds[at] {
					cutInside = true
				}
			}
		}
		if cutInside {
			c.count("probe.cut_inside_a_sequence", 1)
			if *got != want.String() {
				c.count("probe.cut_inside_changed_the_outcome", 1)
			}
			return
		}
	}
	if *got != want.String() {
		var names []string
		for _, k := range plan.Keys {
			e := keybTable[((k%len(keybTable))+len(keybTable))%len(keybTable)]
			names = append(names, fmt.Sprintf("%s(%q)", e.name, e.bytes))
		}
		c.violate("keyb.decode", "keys %s, each bound to put(its marker), delivered in mode %d: the query is %q, the keys stand for %q", strings.Join(names, " "), plan.Mode, *got, want.String())
		return
	}
	c.count("nontrivial", 1)
	c.state = fmt.Sprintf("keys=%d mode=%d", len(plan.Keys), plan.Mode)
}

func init() {
	scenarios["keyb"] = scenario{bubble: true, run: runKeyb}
}
