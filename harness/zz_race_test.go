//go:build verif

package fzf

// C13 auxiliary: "the loader, the matcher workers and their caches do not race
// on shared memory". The deterministic scheduler orders every step through its
// own hand-offs, which hides data races from the race detector by
// construction; this scenario therefore runs the same components (ChunkList,
// Matcher.Loop with its partition workers, ChunkCache, EventBox) in
// pass-through mode: yields are plain runtime.Gosched calls, goroutines run in
// parallel on several Ps, and the worker binary is built with -race. The
// channel-based lock shims keep exactly the happens-before edges of the
// primitives they replace (unlock k -> lock k+1), nothing more. The only
// oracle is the race detector (plus crashes); a run is not replayable, the
// report carries plan and seed.

import (
	"fmt"
	"sync/atomic"
	"time"

	"github.com/junegunn/fzf/src/util"
	"github.com/junegunn/fzf/src/zsim"
)

func runRacer(c *runCtx) {
	plan := &loopPlan{}
	if !c.loadPlan(plan) {
		plan = genLoopPlan(c.rng)
	}
	c.plan = plan
	plan.Lines.N = clampInt(plan.Lines.N, 0, 20000)
	corruptChunk = ""
	P := clampInt(plan.Partitions, 1, 32)
	L := clampInt(plan.Loaders, 1, 4)
	tail := plan.Tail
	if tail < 0 {
		tail = 0
	}
	lines := genLines(plan.Lines)
	plan.Match.install()

	cache := NewChunkCache()
	var idx int32
	cl := NewChunkList(cache, func(item *Item, data []byte) bool {
		// runs under the list's lock, like the real item builder: idx is protected by it
		zsim.Yield("item-builder")
		item.text = util.ToChars(data)
		item.text.Index = idx
		idx++
		return true
	})
	evb := util.NewEventBox()
	rev := revision{}
	pc := map[string]*Pattern{}
	m := NewMatcher(cache, func(r []rune) *Pattern { return plan.Match.pattern(cache, pc, rev, string(r), true) },
		plan.Match.Sort, plan.Match.Tac, evb, rev)
	m.partitions = P
	m.slab = make([]*util.Slab, P)
	for i := range m.slab {
		m.slab[i] = util.MakeSlab(slab16Size, slab32Size)
	}

	cfg := c.simConfig()
	cfg.PassThrough = true
	cfg.Replay = nil
	sim := zsim.New(cfg)
	c.sim = sim
	zsim.EventHook = nil

	var loadersLeft atomic.Int32
	loadersLeft.Store(int32(L))
	var stop atomic.Bool
	var published, walked atomic.Int64

	sim.Go("matcher", func() { m.Loop() })
	for j := 0; j < L; j++ {
		j := j
		sim.Go(fmt.Sprintf("ext/loader%d", j), func() {
			k, sent := 0, 0
			for i := j; i < len(lines); i += L {
				cl.Push([]byte(lines[i]))
				sent++
				b := 100
				if len(plan.Bursts) > 0 {
					b = plan.Bursts[(k+j)%len(plan.Bursts)]
				}
				if b < 1 {
					b = 1
				}
				if sent >= b {
					sent = 0
					g := 0
					if len(plan.GapsMs) > 0 {
						g = plan.GapsMs[(k+j)%len(plan.GapsMs)]
					}
					k++
					if g > 0 {
						time.Sleep(time.Duration(clampInt(g, 0, 5000)) * time.Millisecond)
					}
				}
			}
			loadersLeft.Add(-1)
		})
	}
	// the coordinator's half: snapshot + request, like Run does on EvtReadNew / EvtSearchNew
	sim.Go("ext/ui", func() {
		sortNow := plan.Match.Sort
		issue := func(q string, cancel bool) {
			snap, _, changed := cl.Snapshot(tail)
			if changed {
				rev.bumpMinor()
			}
			m.Reset(snap, []rune(q), cancel, loadersLeft.Load() == 0, sortNow, rev)
		}
		for _, op := range plan.Ops {
			if op.GapMs > 0 {
				time.Sleep(time.Duration(clampInt(op.GapMs, 0, 5000)) * time.Millisecond)
			}
			if op.Toggle {
				sortNow = !sortNow
			}
			issue(op.Query, op.Cancel)
		}
		for loadersLeft.Load() > 0 {
			time.Sleep(50 * time.Millisecond)
			if len(plan.Ops) > 0 {
				issue(plan.Ops[len(plan.Ops)-1].Query, false)
			}
		}
		if len(plan.Ops) > 0 {
			issue(plan.Ops[len(plan.Ops)-1].Query, true)
		}
		time.Sleep(2 * time.Second)
		stop.Store(true)
		evb.Set(EvtQuit, nil)
	})
	// the terminal's half: take every published merger and read all of it while loading goes on
	sim.Go("ext/consumer", func() {
		for !stop.Load() {
			var mergers []*Merger
			evb.Wait(func(events *util.Events) {
				for evt, val := range *events {
					if evt == EvtSearchFin {
						if mg, ok := val.(*Merger); ok {
							mergers = append(mergers, mg)
						}
					}
				}
				events.Clear()
			})
			for _, mg := range mergers {
				published.Add(1)
				n := mg.Length()
				sum := 0
				for i := 0; i < n; i++ {
					it := mg.Get(i).item
					sum += int(it.Index()) + it.text.Length()
					if it.text.Length() > 0 {
						sum += int(it.text.Get(0))
					}
				}
				walked.Add(int64(n))
				_ = sum
			}
		}
	})
	out := sim.Run(3*time.Second, 1<<30, 0)
	c.outcome = out.String()
	sim.Stop()
	c.count("racer.mergers_read", int(published.Load()))
	c.count("racer.results_read", int(walked.Load()))
	c.count("racer.requests", len(plan.Ops))
	if published.Load() > 0 {
		c.count("nontrivial", 1)
	}
	c.state = fmt.Sprintf("n=%d loaders=%d partitions=%d tail=%d ops=%d", len(lines), L, P, tail, len(plan.Ops))
}

func init() {
	scenarios["racer"] = scenario{bubble: true, run: runRacer}
	// whole `fzf --filter` processes (real Reader, coordinator, matcher) in pass-through mode under -race;
	// the framing/order oracle of the filter scenario still applies (it holds for every schedule)
	scenarios["racefilter"] = scenario{bubble: true, run: func(c *runCtx) {
		c.passThrough = true
		runFilter(c)
	}}
}
