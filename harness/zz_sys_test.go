//go:build verif

package fzf

// H-sys: the real Run() in interactive mode inside the simulator: real
// coordinator, matcher, Terminal, LightRenderer (escape-sequence generator and
// input decoder), previewer, HTTP handler, History; simulated tty + VT
// emulator, stdin, child processes, signals, listener, clock.

import (
	"fmt"
	"os"
	"path/filepath"
	"regexp"
	"runtime"
	"sort"
	"strconv"
	"strings"
	"syscall"
	"time"

	"github.com/junegunn/fzf/src/util"
	"github.com/junegunn/fzf/src/zsim"
	"github.com/junegunn/fzf/src/zsim/simos"
	"github.com/junegunn/fzf/src/zsim/simtty"
)

// ---------------------------------------------------------------------------
// keys

var tmpNameRe = regexp.MustCompile(`[^ '"]*(verif-run-|fzf-temp-)[^ '"]*`)

var keyBytes = map[string]string{
	"enter": "\r", "esc": "\x1b", "tab": "\t", "btab": "\x1b[Z", "bspace": "\x7f", "space": " ",
	"up": "\x1b[A", "down": "\x1b[B", "right": "\x1b[C", "left": "\x1b[D", "home": "\x1b[H", "end": "\x1b[F",
	"del": "\x1b[3~", "pgup": "\x1b[5~", "pgdn": "\x1b[6~", "insert": "\x1b[2~",
	"f1": "\x1bOP", "f2": "\x1bOQ", "f3": "\x1bOR", "f4": "\x1bOS", "f5": "\x1b[15~", "f6": "\x1b[17~",
	"f7": "\x1b[18~", "f8": "\x1b[19~", "f9": "\x1b[20~", "f10": "\x1b[21~", "f11": "\x1b[23~", "f12": "\x1b[24~",
	"alt-bspace": "\x1b\x7f", "shift-left": "\x1b[1;2D", "shift-right": "\x1b[1;2C", "ctrl-]": "\x1d",
}

func init() {
	for c := 'a'; c <= 'z'; c++ {
		keyBytes["ctrl-"+string(c)] = string(rune(c - 'a' + 1))
		keyBytes["alt-"+string(c)] = "\x1b" + string(c)
	}
	for c := '0'; c <= '9'; c++ {
		keyBytes["alt-"+string(c)] = "\x1b" + string(c)
	}
}

// encodeKeys turns "a b enter ctrl-k" into bytes; unknown multi-char names are typed literally.
func encodeKeys(names string) []byte {
	var out []byte
	for _, k := range strings.Fields(names) {
		if b, ok := keyBytes[k]; ok {
			out = append(out, b...)
		} else {
			out = append(out, k...)
		}
	}
	return out
}

// ---------------------------------------------------------------------------
// plan

type sysEvent struct {
	DelayMs int    `json:"d"`
	Kind    string `json:"k"` // keys | raw | resize | sig | hup | settle | post | get | rawhttp
	Keys    string `json:"keys,omitempty"`
	Raw     []byte `json:"raw,omitempty"`
	SplitAt int    `json:"split,omitempty"` // deliver the bytes in two pieces …
	GapMs   int    `json:"gap,omitempty"`   // … this far apart
	Cols    int    `json:"cols,omitempty"`
	Rows    int    `json:"rows,omitempty"`
	Sig     string `json:"sig,omitempty"`
	Body    string `json:"body,omitempty"`
	Tag     string `json:"tag,omitempty"` // model-level meaning (e.g. the action a key is bound to)
}

type procSpec struct {
	StartErr bool   `json:"start_err,omitempty"`
	Chunks   []int  `json:"chunks,omitempty"` // line counts / byte counts per chunk
	DelaysMs []int  `json:"delays,omitempty"`
	Endless  bool   `json:"endless,omitempty"`
	Exit     int    `json:"exit,omitempty"`
	Text     string `json:"text,omitempty"`
	FinalMs  int    `json:"final_ms,omitempty"`
	Fork     bool   `json:"fork,omitempty"`      // the shell forks a worker child (pipeline / compound command)
	LingerMs int    `json:"linger_ms,omitempty"` // closes its output after the last chunk and stays alive
	DetachMs int    `json:"detach_ms,omitempty"` // leaves a process behind, outside the process group, that holds the output pipe this long
	IgnTerm  bool   `json:"ign_term,omitempty"`  // ignores every signal but SIGKILL (trap '' TERM INT HUP)
	Bulk     int    `json:"bulk,omitempty"`      // bytes of further output after Text (more than a pipe holds, e.g. seq 100000)
}

type sysPlan struct {
	Args     []string   `json:"args"`
	Match    matchCfg   `json:"match"`
	Lines    lineSpec   `json:"lines"`
	NoStdin  bool       `json:"no_stdin"` // input comes from start:reload
	Reads    []int      `json:"reads"`
	GapsMs   []int      `json:"gaps_ms"`
	HoldOpen bool       `json:"hold_open"`
	Cols     int        `json:"cols"`
	Rows     int        `json:"rows"`
	CurRow   int        `json:"cur_row"`
	Events   []sysEvent `json:"events"`
	Gens     []lineSpec `json:"gens"`
	GenProc  []procSpec `json:"gen_proc"`
	Procs    []procSpec `json:"procs"` // behaviours for other command classes, consumed round-robin per class
	NumCPU   int        `json:"num_cpu"`
	DsrMs    int        `json:"dsr_ms"`
	// ClockGrain > 1: fzf's clock is coarse - readings taken within one grain are equal
	ClockGrain int `json:"clock_grain,omitempty"`
	// ExecFails: replacing the process (become) fails
	ExecFails bool `json:"exec_fails,omitempty"`
	// TmpGone: the directory for temporary files does not exist (any more): every attempt to create one fails
	TmpGone bool `json:"tmp_gone,omitempty"`
	Multi   int  `json:"multi"` // 0 none, -1 unlimited, n limit
	Header  int  `json:"header_lines"`
	Tail    int  `json:"tail"`
	Read0   bool `json:"read0"`
	// Stages: the producer on stdin writes this many records, then pauses until the next "feed" event
	// (one entry per pause; what is left after the last pause comes with the last feed)
	Stages []int `json:"stages,omitempty"`
	// StdoutClosed: nobody reads fzf's standard output any more (`fzf | true`)
	StdoutClosed bool `json:"stdout_closed,omitempty"`
}

// ---------------------------------------------------------------------------
// engine

type searchRec struct {
	changed  bool
	denylist []int32
	command  string
	sync     bool
	nthSet   bool
	revision revision
	sort     bool
}

type sysRun struct {
	c     *runCtx
	plan  *sysPlan
	sim   *zsim.Sim
	os    *simos.OS
	tty   *simtty.TTY
	in    *simStdin
	t     *Terminal
	opts  *Options
	lines []string

	code     int
	err      error
	done     bool
	doneAt   time.Duration
	stdout   []byte
	stdoutF  *os.File
	realOut  *os.File
	userWait bool
	userDone bool
	resume   chan struct{}
	settleN  int

	searches   []searchRec
	mergers    int
	genSeq     map[string]int
	genByPid   map[int]int
	became     string
	becameLeft []string // child processes alive and never signalled at the instant fzf replaced itself

	onSettle      func(r *sysRun, busy bool, final bool)
	execFailed    bool // become could not replace the process
	termDelivered bool // SIGTERM / SIGHUP reached fzf's handler
	onExit        func(r *sysRun)
	behave        func(r *sysRun, p *simos.Proc) (simos.Script, bool)
	auditAt       []string
	tmpDir        string
	oldTmp        string

	tolerateBadOpts bool
	sigKilled       bool
	sigTermAt       time.Duration // when SIGTERM/SIGHUP arrived while a foreground command was running
	sigTermCmd      string
	pipeDied        bool
	pipeLeft        []string // child processes alive and never signalled at the first write to a closed stdout
	sigLeft         []string // child processes alive and never signalled when a signal without handler ended fzf
	stageLines      []int    // records written after stage k
	minWindowSteps  int      // fewest scheduler steps in any 1 s window of the last settle attempt
	procsAtSettle   int      // size of the process table when that attempt began
	sigQuiet        bool     // SIGINT/SIGTERM was delivered to fzf's handler while no child process was around
	sigAt           time.Duration
}

// checkSpin: bounded liveness once the faults have stopped. Nothing external is pending (no key or
// signal on its way, no child process alive, standard input at its end or closed), yet for two simulated
// minutes fzf kept at least one goroutine spinning (a lone spinning goroutine is fast-forwarded and still
// takes thousands of steps per simulated second; a session at rest takes a few dozen per spinner tick, a few
// hundred while the "reading" spinner is redrawn): that is a livelock
// - some component waits for something that will never happen - not a search or a render in progress.
// (After `become` the process image is gone; what the simulation still runs of it means nothing.)
func (r *sysRun) checkSpin() {
	if r.minWindowSteps < 1000 || r.done || r.became != "" {
		return
	}
	procs := r.os.Snapshot()
	if len(procs) != r.procsAtSettle {
		// commands were started meanwhile (e.g. a load:reload(...) binding feeding itself): the user's loop, not fzf's
		return
	}
	for _, p := range procs {
		if p.Alive {
			return
		}
	}
	if !r.plan.NoStdin && !(r.in.eofSeen || r.in.isClosed()) {
		return
	}
	r.c.violate("sys.spin", "nothing external is pending (no live child process, input at its end, user idle) but fzf kept spinning: at least %d scheduler steps in every simulated second for two minutes; parked=%v\n%s",
		r.minWindowSteps, r.sim.Parked(), blockedStacks())
}

// fedLines is the number of input records the stdin producer has written so far.
func (r *sysRun) fedLines() int {
	if r.in != nil && r.in.stage < len(r.stageLines) {
		return r.stageLines[r.in.stage]
	}
	return len(r.lines)
}

// inputAtRest: everything written so far has been read by fzf.
func (r *sysRun) inputAtRest() bool {
	return r.in != nil && r.in.off >= r.in.limit()
}

func (p *sysPlan) baseArgs() []string {
	a := []string{}
	m := p.Match
	if !m.Sort {
		a = append(a, "--no-sort")
	}
	if m.Tac {
		a = append(a, "--tac")
	}
	tb := []string{}
	for _, c := range m.criteria()[1:] {
		tb = append(tb, map[criterion]string{byChunk: "chunk", byLength: "length", byBegin: "begin", byEnd: "end", byPathname: "pathname"}[c])
	}
	a = append(a, "--scheme", []string{"default", "path", "history"}[((m.Scheme%3)+3)%3])
	if len(tb) > 0 {
		a = append(a, "--tiebreak", strings.Join(tb, ","))
	} else {
		a = append(a, "--tiebreak", "index")
	}
	if !m.Fuzzy {
		a = append(a, "--exact")
	}
	if m.AlgoV1 {
		a = append(a, "--algo", "v1")
	}
	if !m.Extended {
		a = append(a, "--no-extended")
	}
	switch ((m.Case % 3) + 3) % 3 {
	case 1:
		a = append(a, "-i")
	case 2:
		a = append(a, "+i")
	}
	if !m.Normal {
		a = append(a, "--literal")
	}
	if p.Multi < 0 {
		a = append(a, "--multi")
	} else if p.Multi > 0 {
		a = append(a, "--multi", strconv.Itoa(p.Multi))
	}
	if p.Header > 0 {
		a = append(a, "--header-lines", strconv.Itoa(p.Header))
	}
	if p.Tail > 0 {
		a = append(a, "--tail", strconv.Itoa(p.Tail))
	}
	if p.Read0 {
		a = append(a, "--read0")
	}
	return append(a, p.Args...)
}

func genScript(lines []string, ps procSpec) simos.Script {
	sc := simos.Script{StartErr: ps.StartErr, Endless: ps.Endless, ExitCode: ps.Exit, FinalMs: ps.FinalMs, Fork: ps.Fork, LingerMs: ps.LingerMs, DetachMs: clampInt(ps.DetachMs, 0, 3600000), IgnoreTerm: ps.IgnTerm}
	i := 0
	k := 0
	for i < len(lines) {
		n := len(lines) - i
		if len(ps.Chunks) > 0 {
			if c := ps.Chunks[k%len(ps.Chunks)]; c > 0 && c < n {
				n = c
			}
		}
		d := 0
		if len(ps.DelaysMs) > 0 && k < 4*len(ps.DelaysMs) {
			d = clampInt(ps.DelaysMs[k%len(ps.DelaysMs)], 0, 5000)
		}
		sc.Chunks = append(sc.Chunks, simos.Chunk{DelayMs: d, Data: strings.Join(lines[i:i+n], "\n") + "\n"})
		i += n
		k++
	}
	return sc
}

func (r *sysRun) defaultBehave(p *simos.Proc) simos.Script {
	if r.behave != nil {
		if sc, ok := r.behave(r, p); ok {
			return sc
		}
	}
	f := strings.Fields(p.Command)
	class := ""
	if len(f) > 0 {
		class = f[0]
	}
	switch class {
	case "GEN":
		k := 0
		if len(f) > 1 {
			k, _ = strconv.Atoi(f[1])
		}
		var lines []string
		if k >= 0 && k < len(r.plan.Gens) {
			lines = genLines(r.plan.Gens[k])
		}
		ps := procSpec{}
		if len(r.plan.GenProc) > 0 {
			ps = r.plan.GenProc[r.genSeq["GEN"]%len(r.plan.GenProc)]
		}
		r.genSeq["GEN"]++
		r.genByPid[p.Pid] = k
		return genScript(lines, ps)
	}
	ps := procSpec{}
	if len(r.plan.Procs) > 0 {
		ps = r.plan.Procs[r.genSeq[class]%len(r.plan.Procs)]
	}
	r.genSeq[class]++
	sc := simos.Script{StartErr: ps.StartErr, Endless: ps.Endless, ExitCode: ps.Exit, FinalMs: ps.FinalMs, Fork: ps.Fork, LingerMs: ps.LingerMs, DetachMs: clampInt(ps.DetachMs, 0, 3600000), IgnoreTerm: ps.IgnTerm}
	text := ps.Text
	d := 0
	if len(ps.DelaysMs) > 0 {
		d = clampInt(ps.DelaysMs[0], 0, 5000)
	}
	if text != "" || d > 0 {
		sc.Chunks = []simos.Chunk{{DelayMs: d, Data: text}}
	}
	if n := clampInt(ps.Bulk, 0, 1<<20); n > 0 {
		sc.Chunks = append(sc.Chunks, simos.Chunk{Data: strings.Repeat("0123456\n", n/8+1)})
	}
	return sc
}

func newSysRun(c *runCtx, plan *sysPlan) *sysRun {
	return &sysRun{c: c, plan: plan, genSeq: map[string]int{}, genByPid: map[int]int{}, resume: make(chan struct{})}
}

// start brings the simulated machine up and launches fzf.
func (r *sysRun) start() bool {
	c, plan := r.c, r.plan
	plan.Cols = clampInt(plan.Cols, 1, 300)
	plan.Rows = clampInt(plan.Rows, 1, 100)
	plan.Lines.N = clampInt(plan.Lines.N, 0, 20000)
	cfg := c.simConfig()
	if plan.ClockGrain > 1 {
		cfg.ClockGrain = clampInt(plan.ClockGrain, 2, 1<<30)
		c.count("fault.clock_coarse", 1)
	}
	r.sim = zsim.New(cfg)
	c.sim = r.sim
	// per-run TMPDIR: the temp-file audit must only see this run's files
	r.oldTmp = os.Getenv("TMPDIR")
	if d, err := os.MkdirTemp("", "run-"); err == nil {
		r.tmpDir = d
		os.Setenv("TMPDIR", d)
		if plan.TmpGone {
			os.Setenv("TMPDIR", filepath.Join(d, "gone"))
			c.count("fault.tmpdir_gone", 1)
		}
	}
	r.os = simos.New(r.sim)
	r.os.Log = func(format string, args ...any) {
		// names of temporary files are random (os.CreateTemp): keep them out of the event log and its hash
		r.sim.Logf("%s", tmpNameRe.ReplaceAllString(fmt.Sprintf(format, args...), "<tmp>"))
	}
	r.os.Behave = r.defaultBehave
	r.tty = simtty.New(plan.Cols, plan.Rows, plan.CurRow)
	r.tty.OnDSR = func(row, col int) {
		if plan.DsrMs < 0 {
			// a terminal (or a bare pty) that does not answer the cursor position request
			// fzf's first read after the request blocks until the terminal sends something (by design: with
			// such a terminal nothing happens until the user types); the user does, once
			c.count("fault.tty_no_dsr_answer", 1)
			r.tty.FeedLocked([]byte(" "))
			return
		}
		// the terminal answers the cursor-position request through the input queue
		r.tty.FeedLocked([]byte(fmt.Sprintf("\x1b[%d;%dR", row, col)))
	}
	zsim.TTY = r.tty
	zsim.Hooks = func(name string, args ...any) bool {
		switch name {
		case "terminal":
			r.t = args[0].(*Terminal)
		case "become":
			if r.plan.ExecFails {
				// execve fails (E2BIG: the command is longer than the kernel takes, ENOMEM, ...): the call returns
				r.execFailed = true
				r.c.count("fault.exec_fails", 1)
				r.sim.Logf("become %q: exec fails", args[0].(string))
				return false
			}
			r.became = args[0].(string)
			for _, p := range r.os.AliveUnkilled() {
				r.becameLeft = append(r.becameLeft, fmt.Sprintf("%d (%q)", p.Pid, p.Command))
			}
			r.sim.Logf("become %q", r.became)
		case "sigtstp":
			r.os.Stops++
			r.sim.Logf("SIGTSTP to self")
		}
		return true
	}
	zsim.EventHook = func(box any, evt int, value any) {
		switch util.EventType(evt) {
		case EvtSearchNew:
			if sr, ok := value.(searchRequest); ok {
				rec := searchRec{changed: sr.changed, denylist: append([]int32(nil), sr.denylist...), sync: sr.sync, nthSet: sr.nth != nil, revision: sr.revision, sort: sr.sort}
				if sr.command != nil {
					rec.command = sr.command.command
				}
				r.searches = append(r.searches, rec)
				r.sim.Logf("EvtSearchNew changed=%v deny=%v cmd=%q", rec.changed, rec.denylist, rec.command)
			}
		case EvtSearchFin:
			if mg, ok := value.(*Merger); ok {
				r.mergers++
				q := "<pass/empty>"
				if mg.pattern != nil {
					q = mg.pattern.AsString()
				}
				r.sim.Logf("EvtSearchFin q=%q n=%d final=%v rev=%v", q, mg.Length(), mg.final, mg.revision)
				if os.Getenv("VERIF_TRACK_CURSOR") != "" && r.t != nil {
					r.sim.Logf("  cursor before this list is taken: cy=%d offset=%d track=%v", r.t.cy, r.t.offset, r.t.track)
				}
				if v := os.Getenv("VERIF_TRACK_ITEM"); v != "" {
					want, _ := strconv.Atoi(v)
					for i := 0; i < mg.Length(); i++ {
						if res := mg.Get(i); int(res.item.Index()) == want {
							r.sim.Logf("  tracked item %d at %d: points %v text %q itemptr %p", want, i, res.points, res.item.text.ToString(), res.item)
						}
					}
				}
			}
		}
		if os.Getenv("VERIF_TRACK_CURSOR") != "" {
			if pr, ok := value.(previewRequest); ok {
				first := int32(-1)
				if len(pr.list) > 0 && pr.list[0] != nil {
					first = pr.list[0].Index()
				}
				vis := r.t != nil && r.t.hasPreviewWindow()
				r.sim.Logf("  preview enqueue q=%q first=%d visible=%v", pr.query, first, vis)
			}
		}
		if mr, ok := value.(MatchRequest); ok {
			kind := "retry"
			if util.EventType(evt) == reqReset {
				kind = "reset"
			}
			r.sim.Logf("matcher.%s q=%q n=%d final=%v rev=%v", kind, mr.pattern.AsString(), CountItems(mr.chunks), mr.final, mr.revision)
		}
	}
	if plan.NumCPU > 0 {
		zsim.Knobs.NumCPU = clampInt(plan.NumCPU, 1, 4)
	} else {
		zsim.Knobs.NumCPU = 0
	}
	r.lines = genLines(plan.Lines)
	var data []byte
	if !plan.NoStdin && len(r.lines) > 0 {
		sep := "\n"
		if plan.Read0 {
			sep = "\x00"
		}
		data = []byte(strings.Join(r.lines, sep) + sep)
	}
	r.in = newSimStdin(c, data, plan.Reads, plan.GapsMs, -1)
	r.in.holdOpen = plan.HoldOpen
	if len(plan.Stages) > 0 && len(data) > 0 {
		off, ln := 0, 0
		for _, n := range plan.Stages {
			n = clampInt(n, 0, len(r.lines)-ln)
			for k := 0; k < n; k++ {
				off += len(r.lines[ln]) + 1
				ln++
			}
			r.in.gates = append(r.in.gates, off)
			r.stageLines = append(r.stageLines, ln)
		}
	}
	zsim.Stdin = r.in
	args := plan.baseArgs()
	opts, err := ParseOptions(false, args)
	if err != nil {
		if r.tolerateBadOpts {
			r.sim.Stop()
			return false
		}
		panic("zsim: INFRA option parsing failed: " + err.Error() + " " + fmt.Sprint(args))
	}
	r.opts = opts
	if plan.StdoutClosed && opts.Printer != nil {
		// the reader of fzf's standard output has gone away: the first write raises SIGPIPE, which ends the
		// process on the spot - whatever fzf has started and not stopped by then stays behind
		orig := opts.Printer
		opts.Printer = func(str string) {
			if !r.pipeDied {
				r.pipeDied = true
				for _, p := range r.os.AliveUnkilled() {
					r.pipeLeft = append(r.pipeLeft, fmt.Sprintf("%d (%q)", p.Pid, p.Command))
				}
				c.count("fault.stdout_closed_sigpipe", 1)
			}
			orig(str)
		}
	}
	tmp, err := os.CreateTemp(r.tmpDir, "verif-stdout-")
	if err != nil {
		panic("zsim: INFRA " + err.Error())
	}
	r.stdoutF = tmp
	r.realOut = os.Stdout
	os.Stdout = tmp
	r.sim.Go("main", func() {
		r.code, r.err = Run(opts)
		r.done = true
		r.doneAt = r.sim.Now()
		r.sim.Logf("Run returned %d", r.code)
		// what a real process would leave behind at this instant
		r.auditAt = r.exitAudit()
	})
	r.sim.Go("ext/user", r.user)
	return true
}

// collectOutput stops capturing stdout and loads what fzf printed.
func (r *sysRun) collectOutput() {
	if r.stdoutF != nil {
		os.Stdout = r.realOut
		r.stdoutF.Close()
		r.stdout, _ = os.ReadFile(r.stdoutF.Name())
		os.Remove(r.stdoutF.Name())
		r.stdoutF = nil
	}
}

func (r *sysRun) cleanup() {
	r.collectOutput()
	if r.tmpDir != "" {
		os.Setenv("TMPDIR", r.oldTmp)
		os.RemoveAll(r.tmpDir)
	}
	zsim.TTY = nil
	zsim.Stdin = nil
	zsim.Hooks = nil
	zsim.EventHook = nil
	simos.Cur = nil
}

// user is the actor that delivers the external events of the plan.
func (r *sysRun) user() {
	for i := range r.plan.Events {
		ev := &r.plan.Events[i]
		if ev.DelayMs > 0 {
			time.Sleep(time.Duration(clampInt(ev.DelayMs, 0, 60000)) * time.Millisecond)
		}
		zsim.Yield("user." + ev.Kind)
		if r.done {
			break
		}
		switch ev.Kind {
		case "keys", "raw":
			b := ev.Raw
			if ev.Kind == "keys" {
				b = encodeKeys(ev.Keys)
			}
			if ev.SplitAt > 0 && ev.SplitAt < len(b) {
				r.tty.Feed(b[:ev.SplitAt])
				r.c.count("fault.tty_split_sequence", 1)
				if ev.GapMs > 0 {
					time.Sleep(time.Duration(clampInt(ev.GapMs, 0, 5000)) * time.Millisecond)
				}
				zsim.Yield("user.keys2")
				r.tty.Feed(b[ev.SplitAt:])
			} else {
				r.tty.Feed(b)
			}
			r.sim.Logf("keys %q", b)
		case "resize":
			r.tty.Resize(ev.Cols, ev.Rows)
			r.os.Signal(syscall.SIGWINCH)
			r.c.count("fault.resize", 1)
			r.sim.Logf("resize %dx%d", ev.Cols, ev.Rows)
		case "sig":
			s := os.Signal(syscall.SIGTERM)
			if ev.Sig == "INT" {
				s = os.Interrupt
			}
			if ev.Sig == "HUP" {
				s = syscall.SIGHUP // the controlling terminal has gone away (window closed, connection lost)
			}
			delivered := r.os.Signal(s)
			if !delivered && ev.Sig == "HUP" && r.t != nil && r.tty.Raw {
				// no handler: the process dies on the spot, once the interface is up and running - what it has
				// started stays behind
				for _, p := range r.os.AliveUnkilled() {
					r.sigLeft = append(r.sigLeft, fmt.Sprintf("%d (%q)", p.Pid, p.Command))
				}
			}
			r.c.count("fault.signal_"+ev.Sig, 1)
			r.sim.Logf("signal %s", ev.Sig)
			if delivered && ev.Sig != "INT" {
				r.termDelivered = true // (a command that an action under way starts afterwards is stopped at once)
			}
			if delivered && ev.Sig != "INT" && r.sigTermAt == 0 {
				// SIGTERM / SIGHUP are for fzf itself whatever it is doing: also while a command it has
				// started in the foreground is still running
				for _, p := range r.os.Snapshot() {
					if p.Alive && (strings.HasPrefix(p.Command, "EX") || strings.HasPrefix(p.Command, "TQ") || strings.HasPrefix(p.Command, "TR")) && p.Parent == nil {
						r.sigTermAt = r.sim.Now()
						r.sigTermCmd = p.Command
					}
				}
			}
			if !delivered {
				// no handler installed (yet): the default action ends the process; nothing of fzf's runs any more
				r.sigKilled = true
				r.c.count("exit.default_signal", 1)
			} else {
				// fzf ignores SIGINT while a foreground command runs (the child receives it too); with no child
				// around - none alive, none gone in the last two seconds - it has to act on the signal
				quiet := true
				now := r.sim.Now()
				for _, p := range r.os.Snapshot() {
					if p.Alive || (p.Ended > 0 && now-p.Ended < 2*time.Second) || (p.Started > 0 && now-p.Started < 2*time.Second) {
						quiet = false
					}
				}
				if quiet {
					r.sigQuiet = true
					r.sigAt = now
				}
			}
		case "hup":
			r.tty.HangUp()
			r.c.count("fault.tty_hangup", 1)
			r.sim.Logf("tty hang-up")
		case "feed":
			if r.in.advance() {
				r.c.count("fault.input_stage", 1)
				r.sim.Logf("stdin producer writes up to record %d", r.fedLines())
			}
		case "settle":
			r.userWait = true
			<-r.resume
			r.userWait = false
			if os.Getenv("VERIF_TRACK_CURSOR") != "" && r.t != nil {
				r.sim.Logf("  at rest: cy=%d offset=%d track=%v previewer.version=%d query=%q cx=%d xoffset=%d", r.t.cy, r.t.offset, r.t.track, r.t.previewer.version, string(r.t.input), r.t.cx, r.t.xoffset)
			}
		default:
			if h := sysEventHandlers[ev.Kind]; h != nil {
				h(r, ev)
			}
		}
	}
	zsim.Yield("user.done")
	r.userDone = true
}

const grandchildMark = "[grandchild] "

// cmdClass: the first two words of a simulated command line ("EX 6"); its arguments are input text
func cmdClass(cmd string) string {
	f := strings.Fields(cmd)
	if len(f) > 2 {
		f = f[:2]
	}
	return strings.Join(f, " ")
}

var sysEventHandlers = map[string]func(r *sysRun, ev *sysEvent){}

// exitAudit is evaluated at the instant Run returns (a real process would
// os.Exit right there).
func (r *sysRun) exitAudit() []string {
	var out []string
	out = append(out, r.tty.Audit()...)
	for _, p := range r.os.AliveUnkilled() {
		if fg := p.Parent != nil && (strings.HasPrefix(p.Parent.Command, "EX") || strings.HasPrefix(p.Parent.Command, "TQ") || strings.HasPrefix(p.Parent.Command, "TR")); (r.sigTermAt > 0 || r.termDelivered) && fg && p.Parent.Killed {
			// its own class: fzf did stop the command it had started (the shell) - the one the signal found
			// running, or one that the rest of the key's action list started afterwards -, what the shell had
			// started lives on
			out = append(out, fmt.Sprintf("%sSIGTERM/SIGHUP arrived while the command %q was running in the foreground; fzf killed the shell (pid %d), the shell's own child %d is still running and never killed", grandchildMark, cmdClass(p.Parent.Command), p.Parent.Pid, p.Pid))
			continue
		}
		out = append(out, fmt.Sprintf("child process %d (%q) still running and never killed", p.Pid, p.Command))
	}
	if ents, err := os.ReadDir(os.TempDir()); err == nil {
		for _, e := range ents {
			if strings.HasPrefix(e.Name(), "fzf-temp-") {
				data, _ := os.ReadFile(os.TempDir() + "/" + e.Name())
				out = append(out, fmt.Sprintf("temporary file left behind: %s (content %q)", e.Name(), clip(data)))
			}
		}
	}
	return out
}

// digest summarises everything observable that changes while work is pending.
func (r *sysRun) digest() string {
	t := r.t
	if t == nil {
		return "no-terminal"
	}
	alive := 0
	procs := r.os.Snapshot()
	for _, p := range procs {
		if p.Alive {
			alive++
		}
	}
	n := -1
	if t.merger != nil {
		n = t.merger.Length()
	}
	return fmt.Sprintf("%q|%d|%d|%d|%p|%d|%d|%v|%d|%d|%d|%d|%d|%d/%d|%d|%d|%v", string(t.input), t.cx, t.cy, t.offset, t.merger, n, t.count, t.reading,
		len(t.selected), t.version, t.previewer.version, r.mergers, len(r.searches), alive, len(procs), r.tty.BytesOut, r.tty.Pending(), t.executing.Get())
}

// spinnerFree drops the output byte count from a digest (the spinner keeps writing while input is open).
func spinnerFree(d string) string {
	f := strings.Split(d, "|")
	if len(f) >= 4 {
		f[len(f)-3] = "-"
	}
	return strings.Join(f, "|")
}

// settle runs the scheduler until the observable state has been stable for H
// (three consecutive 1 s windows) with the user actor waiting or finished.
// fzf's spinner goroutine ticks every 100 ms for the whole session, so "no
// goroutine reaches a yield" never happens in interactive mode.
func (r *sysRun) settle(maxWindows int) (settled bool, out zsim.Outcome) {
	stable := 0
	last := ""
	r.minWindowSteps = -1
	r.procsAtSettle = len(r.os.Snapshot())
	for w := 0; w < maxWindows; w++ {
		stepsBefore := r.sim.Stats.Steps
		out = r.sim.Run(time.Second, 4000000, r.sim.Now()+time.Second)
		if r.done || out == zsim.OutOfSteps {
			return false, out
		}
		if len(r.os.Snapshot())-r.procsAtSettle > 300 {
			// self-feeding bindings: commands are started without end, waiting longer only costs wall-clock
			return false, out
		}
		if ws := r.sim.Stats.Steps - stepsBefore; r.minWindowSteps < 0 || ws < r.minWindowSteps {
			r.minWindowSteps = ws
		}
		d := r.digest()
		// a goroutine parked at a yield is runnable: pending work (only the 100 ms spinner may be caught here by chance)
		// The only periodic activity of an idle session is the 100 ms spinner goroutine (a handful of
		// steps per tick); more steps in the window, or several runnable goroutines, mean pending work.
		maxSteps := 100
		if len(r.stageLines) > 0 && r.t != nil && r.t.reading {
			// staged input: while the producer pauses fzf is still "reading" and the spinner is redrawn every
			// 100 ms (spinner goroutine -> reqInfo -> renderer -> tty: a few dozen steps per tick)
			maxSteps = 600
			d = spinnerFree(d)
		}
		if r.sim.Stats.Steps-stepsBefore > maxSteps || len(r.sim.Parked()) > 1 {
			last = ""
			d += "|active"
		}
		if d == last && (r.userWait || r.userDone) {
			stable++
		} else {
			stable = 0
		}
		last = d
		if stable >= 3 {
			return true, out
		}
	}
	return false, out
}

// drive runs the scheduler through all phases; returns false if the run is unusable.
func (r *sysRun) drive() bool {
	c := r.c
	for phase := 0; phase < 10000; phase++ {
		if r.sigKilled {
			return false
		}
		settled, out := r.settle(120)
		c.outcome = out.String()
		if r.done {
			return true
		}
		if out == zsim.OutOfSteps {
			c.count("inconclusive", 1)
			return false
		}
		if !settled {
			// two simulated minutes without the state coming to rest
			if r.userWait || r.userDone {
				if len(r.os.Snapshot())-r.procsAtSettle > 100 {
					// the configuration feeds itself (load:reload(...) and the like) and will never come to
					// rest: nothing more to learn from waiting; ctrl-c must still end the session
					c.count("probe.self_feeding_bindings", 1)
					return true
				}
				r.checkSpin()
				if r.userWait {
					r.settleN++
				}
				if r.onSettle != nil {
					r.onSettle(r, true, r.userDone)
				}
				if r.userDone {
					return true
				}
				r.resume <- struct{}{}
				continue
			}
			if r.sim.Now() > 60*time.Minute {
				c.count("inconclusive", 1)
				return false
			}
			continue
		}
		if r.userWait {
			r.settleN++
			if r.onSettle != nil {
				r.onSettle(r, false, false)
			}
			if len(c.viol) > 0 {
				return false
			}
			r.resume <- struct{}{}
			continue
		}
		if r.userDone {
			if r.onSettle != nil {
				r.onSettle(r, false, true)
			}
			return true
		}
	}
	return false
}

// finish forces termination (if still running) and collects the outcome.
func (r *sysRun) finish() {
	c := r.c
	if n := r.os.PipeFull; n > 0 {
		c.count("probe.pipe_full_writer_blocked", n)
	}
	if n := r.sim.CoarseReadings(); n > 0 {
		c.count("probe.clock_reading_equal_to_previous", n)
	}
	if r.sigQuiet {
		// a command started right after the signal was sent (a key already on its way) may have begun before
		// fzf got to look at the signal: then ignoring it is what fzf does during a command
		for _, p := range r.os.Snapshot() {
			if p.Started >= r.sigAt && p.Started-r.sigAt < 2*time.Second {
				r.sigQuiet = false
			}
		}
	}
	if !r.done && r.became == "" && r.sigQuiet && !r.sigKilled {
		c.violate("sys.signal_ignored", "SIGINT/SIGTERM was delivered while no command was running, the session came to rest, and fzf is still there; parked=%v\n%s", r.sim.Parked(), blockedStacks())
	}
	if !r.done && r.execFailed {
		// become has closed the interface and handed the terminal back before it tried to replace the process;
		// when that fails there is nothing to go back to: fzf has to end (with an error), not sit there
		// with a closed interface until somebody sends it a signal
		c.violate("sys.limbo", "become(...) could not replace the process (exec failed); the interface is closed, the terminal is in cooked mode (raw=%v) and fzf is still running at rest", r.tty.Raw)
	}
	if !r.done && r.became == "" {
		// responsiveness probe: ctrl-c must end the session. Every malformed escape sequence still queued in the
		// key decoder takes one more key press to get past (its "second chance" read blocks), so ctrl-c is
		// pressed up to 360 times before fzf is declared unresponsive.
		var out zsim.Outcome
		for try := 0; try < 60 && !r.done && r.became == ""; try++ {
			if !r.tty.Raw {
				// the tty is in cooked mode (fzf has not taken over the terminal, e.g. it still waits for the
				// input to end under --sync/--select-1): ctrl-c is turned into SIGINT by the line discipline
				if !r.os.Signal(os.Interrupt) {
					// no handler installed: the default action terminates the process; nothing of fzf's runs
					r.c.count("exit.default_sigint", 1)
					r.sigKilled = true
					break
				}
			}
			r.tty.Feed([]byte{3, 3, 3, 3, 3, 3})
			out = r.sim.Run(2*time.Second, 2000000, r.sim.Now()+20*time.Second)
			if out == zsim.OutOfSteps {
				break
			}
		}
		if !r.done && !r.sigKilled && r.became == "" {
			if out == zsim.OutOfSteps {
				c.count("inconclusive", 1)
			} else {
				c.violate("sys.hang", "fzf did not exit after ctrl-c was pressed 360 times over several simulated minutes (scheduler: %v); parked=%v\n%s", out, r.sim.Parked(), blockedStacks())
			}
		}
	}
	r.sim.Stop()
}

// ---- white-box state --------------------------------------------------------

type uiState struct {
	Query    string
	Cx       int
	Cy       int
	Offset   int
	Count    int
	Matches  []int32
	Selected []int32 // in selection order
	Reading  bool
	Sort     bool
	Paused   bool
	Current  int32 // ordinal of the current item, -1 if none
}

func (r *sysRun) state() *uiState {
	t := r.t
	if t == nil || t.merger == nil {
		return nil
	}
	s := &uiState{Query: string(t.input), Cx: t.cx, Cy: t.cy, Offset: t.offset, Count: t.count, Reading: t.reading, Sort: t.sort, Paused: t.paused, Current: -1}
	n := t.merger.Length()
	s.Matches = make([]int32, n)
	for i := 0; i < n; i++ {
		s.Matches[i] = t.merger.Get(i).item.Index()
	}
	for _, sel := range t.sortSelected() {
		s.Selected = append(s.Selected, sel.item.Index())
	}
	if n > 0 && t.cy >= 0 && t.cy < n {
		s.Current = t.merger.Get(t.cy).item.Index()
	}
	return s
}

// loadedInput determines what the currently loaded input is: the records of
// the source fzf last started and fully consumed.
func (r *sysRun) loadedInput() (lines []string, complete bool) {
	procs := r.os.Snapshot()
	var last *simos.Proc
	for _, p := range procs {
		if _, ok := r.genByPid[p.Pid]; ok {
			last = p
		}
	}
	if last == nil {
		if r.plan.NoStdin {
			return nil, true
		}
		return r.lines, r.in.eofSeen
	}
	k := r.genByPid[last.Pid]
	if k >= 0 && k < len(r.plan.Gens) {
		lines = genLines(r.plan.Gens[k])
	}
	emitted := last.Emitted.String()
	complete = !last.Alive && !last.Killed && last.Consumed == len(emitted) && emitted == strings.Join(lines, "\n")+"\n" || (len(lines) == 0 && !last.Alive && !last.Killed)
	return lines, complete
}

func sortedCopy(a []int32) []int32 {
	b := append([]int32(nil), a...)
	sort.Slice(b, func(i, j int) bool { return b[i] < b[j] })
	return b
}

// blockedStacks summarises where the goroutines of the bubble are blocked (fzf frames only).
func blockedStacks() string {
	buf := make([]byte, 1<<20)
	n := runtime.Stack(buf, true)
	var out []string
	gs := strings.Split(string(buf[:n]), "\n\n")
	// the first entry is the calling goroutine: keep only goroutines of its bubble
	bubble := ""
	if len(gs) > 0 {
		if k := strings.Index(gs[0], "synctest bubble "); k >= 0 {
			bubble = gs[0][k:]
			if e := strings.IndexAny(bubble, "]\n"); e >= 0 {
				bubble = bubble[:e]
			}
		}
	}
	for _, g := range gs {
		if !strings.Contains(g, "synctest bubble") || bubble != "" && !strings.Contains(strings.SplitN(g, "\n", 2)[0], bubble+"]") {
			continue
		}
		lines := strings.Split(g, "\n")
		var frames []string
		for i := 1; i+1 < len(lines); i += 2 {
			fn := lines[i]
			loc := strings.TrimSpace(lines[i+1])
			if strings.Contains(fn, "fzf/src") && !strings.Contains(fn, "/zsim") && !strings.Contains(loc, "/zz_") {
				if k := strings.LastIndex(loc, "/"); k >= 0 {
					loc = loc[k+1:]
				}
				if k := strings.Index(loc, " +"); k >= 0 {
					loc = loc[:k]
				}
				name := fn
				if k := strings.LastIndex(name, "/src"); k >= 0 {
					name = name[k+4:]
				}
				if k := strings.Index(name, "("); k > 0 && !strings.HasPrefix(name, ".(") {
					name = name[:k]
				}
				frames = append(frames, name+"@"+loc)
				if len(frames) >= 4 {
					break
				}
			}
		}
		if len(frames) > 0 {
			hdr := lines[0]
			if k := strings.Index(hdr, "["); k >= 0 {
				hdr = hdr[k:]
			}
			out = append(out, hdr+" "+strings.Join(frames, " <- "))
		}
	}
	sort.Strings(out)
	return strings.Join(out, "\n")
}
