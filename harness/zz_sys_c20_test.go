//go:build verif

package fzf

// C20: the preview always catches up with the focused line; superseded
// preview commands are terminated; at most one is alive; none survives exit.

import (
	"fmt"
	"os"
	"regexp"
	"strconv"
	"strings"

	"github.com/junegunn/fzf/src/zsim"
	"github.com/junegunn/fzf/src/zsim/simos"
)

// shWords splits a command line the way a POSIX shell does for the subset fzf
// produces: blanks separate words, single quotes protect, '\” is a quote.
func shWords(s string) []string {
	var out []string
	var cur strings.Builder
	in := false
	has := false
	for i := 0; i < len(s); i++ {
		c := s[i]
		switch {
		case in:
			if c == '\'' {
				in = false
			} else {
				cur.WriteByte(c)
			}
		case c == '\'':
			in = true
			has = true
		case c == '\\' && i+1 < len(s):
			i++
			cur.WriteByte(s[i])
			has = true
		case c == ' ':
			if has || cur.Len() > 0 {
				out = append(out, cur.String())
				cur.Reset()
				has = false
			}
		default:
			cur.WriteByte(c)
			has = true
		}
	}
	if has || cur.Len() > 0 {
		out = append(out, cur.String())
	}
	return out
}

const c20Template = "{n} {q} {} {+n}"

var c20Binds = []struct{ key, action string }{
	{"alt-a", "up"}, {"alt-b", "down"}, {"alt-c", "first"}, {"alt-d", "last"},
	{"alt-e", "toggle"}, {"alt-f", "refresh-preview"}, {"alt-g", "toggle-preview"},
	{"alt-h", "change-preview(PV2 " + c20Template + ")"}, {"alt-i", "preview(PVX " + c20Template + ")"},
	{"alt-j", "change-preview-window(up|down,40%|right)"}, {"alt-k", "clear-query"},
	{"alt-l", "toggle-all"}, {"alt-m", "change-preview(PV " + c20Template + ")"},
	{"alt-n", "half-page-up"}, {"alt-o", "pos(2)"},
	// the input is replaced: the line under the cursor keeps its number but not its text
	{"alt-p", "reload(GEN 1)"}, {"alt-q", "reload-sync(GEN 0)"},
	// things that move the line under the cursor without a cursor key
	{"alt-r", "toggle-track"}, {"alt-s", "toggle-sort"}, {"alt-t", "exclude"}, {"alt-u", "toggle-header"}, {"alt-v", "change-query(ab)"},
	{"alt-w", "track-current"}, {"alt-x", "change-header(h)"},
	// one key: the cursor leaves the line, something restarts the preview there, the cursor comes back - the
	// renderer only ever sees the line it knew
	{"alt-2", "execute-silent(EXQ)"},
	// a foreground command with the terminal handed over: fzf redraws everything by itself when it ends
	{"alt-3", "execute(EXQ)"},
	{"alt-y", "down+refresh-preview+up"}, {"alt-z", "up+change-preview(PV3 " + c20Template + ")+down"}, {"alt-1", "down+toggle-preview+toggle-preview+up"},
}

func genC20Plan(r *zsim.Rng) *sysPlan {
	p := &sysPlan{Match: genMatchCfg(r), Cols: r.Range(40, 140), Rows: r.Range(10, 45)}
	p.Match.Tac = false
	n := []int{1, 2, r.Range(3, 20), r.Range(10, 120)}[r.Intn(4)]
	p.Lines = lineSpec{N: n, Seed: r.Seed53(), Shape: r.Intn(4)}
	if r.Chance(1, 2) {
		p.Multi = -1
	}
	p.Gens = []lineSpec{p.Lines, {N: []int{n, n, r.Range(1, n+3)}[r.Intn(3)], Seed: r.Seed53(), Shape: r.Intn(4)}}
	if r.Chance(1, 3) {
		p.GenProc = []procSpec{{Chunks: []int{r.Range(1, 50)}, DelaysMs: []int{[]int{0, 20, 200, 600}[r.Intn(4)]}}}
	}
	// streamed input with --tail: the records arrive in stages while the user is at work; what falls out of the
	// window takes its selection mark with it - the selection changes without a key (wave 18)
	feeds := 0
	tailAim := false
	if n >= 4 && r.Chance(1, 4) {
		feeds = r.Range(1, 2)
		left := n
		for i := 0; i < feeds; i++ {
			k := r.Range(2, maxInt(2, left/2))
			p.Stages = append(p.Stages, k)
			left -= k
		}
		p.Tail = r.Range(1, n-1)
		p.Multi = -1
		if r.Chance(2, 3) {
			p.Args = append(p.Args, "--track")
			if k := p.Stages[0]; r.Bool() && n-k+1 <= n-1 {
				// aim: the last record of the first stage stays in the window, the first one does not
				p.Tail = r.Range(n-k+1, n-1)
				tailAim = true
			}
		}
	}
	tmpl := "PV " + c20Template
	if r.Chance(1, 6) {
		tmpl = "PV {f} " + c20Template
	}
	p.Args = append(p.Args, "--preview", tmpl)
	narrowWide := false
	if r.Chance(1, 2) {
		p.Args = append(p.Args, "--preview-window", pick(r, "right", "left,30%", "up", "down,50%", "hidden", "right,border-none", "up,follow", "right,follow", "down,30%,follow", "right,50%,<40(hidden)", "right,50%,<40(up,40%)", "right,+3", "up,+5", "right,+2,follow"))
		narrowWide = strings.Contains(p.Args[len(p.Args)-1], "<40")
	}
	for _, b := range c20Binds {
		p.Args = append(p.Args, "--bind", b.key+":"+b.action)
	}
	// preview child behaviours
	for i := r.Range(2, 7); i > 0; i-- {
		ps := procSpec{}
		switch r.Intn(8) {
		case 0: // instant
			ps.Text = "one\ntwo\nthree\n"
		case 1: // slow start
			ps.Text = "late1\nlate2\nlate3\n"
			ps.DelaysMs = []int{[]int{120, 480, 520, 900, 2500}[r.Intn(5)]}
		case 2: // incremental over seconds
			ps.Chunks = []int{1, 1, 1}
			ps.DelaysMs = []int{[]int{50, 150, 400, 1100}[r.Intn(4)], 90, 600}
			ps.Text = "l1\nl2\nl3\nl4\nl5\n"
		case 3: // endless output after a start
			ps.Text = "head\n"
			ps.Endless = true
		case 4: // silent forever - or silent for most of a second, then gone
			ps.Endless = true
			if r.Bool() {
				ps.Endless = false
				ps.DelaysMs = []int{[]int{600, 800, 1500}[r.Intn(3)]}
			}
		case 5:
			ps.StartErr = true
		case 6:
			if r.Chance(1, 3) {
				// more lines than the window has rows (follow mode scrolls to the end), then - sometimes - a clear
				// code and a short second frame
				var b strings.Builder
				nl := r.Range(30, 120)
				for k := 1; k <= nl; k++ {
					fmt.Fprintf(&b, "L%d\n", k)
				}
				ps.Text = b.String()
				ps.Chunks = []int{nl}
				ps.DelaysMs = []int{r.Intn(100)}
				if r.Bool() {
					ps.Text += "\x1b[2Jframe2-a\nframe2-b\n"
					ps.Chunks = append(ps.Chunks, 100)
					ps.DelaysMs = append(ps.DelaysMs, []int{50, 300, 700, 1200}[r.Intn(4)])
				}
				break
			}
			ps.Text = "before\n\x1b[2Jafter-clear\nmore\n"
			if r.Chance(1, 4) {
				// the screen is cleared twice with text in between and no newline (progress; clear; result)
				ps.Text = "old1\nold2\n\x1b[2Jloading..\x1b[2Jnew\nmore\n"
			}
			ps.DelaysMs = []int{r.Intn(300)}
			if r.Chance(2, 3) {
				// the clear code arrives after part of the output was rendered / after the 500 ms mark / repeatedly
				ps.Text = "before\n\x1b[2Jafter-clear\n\x1b[2Jsecond-clear\nmore\n"
				ps.Chunks = []int{1}
				ps.DelaysMs = []int{r.Intn(50), []int{150, 350, 700}[r.Intn(3)], []int{120, 600}[r.Intn(2)], 10}
			}
		default:
			ps.Text = "partial-no-newline"
			ps.Exit = 1
			if r.Bool() {
				// a command that redraws: two frames of the same height, the second after the clear code, the
				// first long enough on the screen to be rendered
				ps = procSpec{Text: "f1-a\nf1-b\nf1-c\n\x1b[2Jf2-a\nf2-b\nf2-c\n", Chunks: []int{3, 3}, DelaysMs: []int{r.Intn(60), []int{250, 400, 900}[r.Intn(3)]}}
			}
		}
		if !ps.Endless && !ps.StartErr && r.Chance(1, 5) {
			// the output ends (the command closes it) but the process stays for a long time
			ps.LingerMs = []int{3000, 20000, 60000}[r.Intn(3)]
		}
		ps.Fork = r.Chance(1, 3)
		ps.IgnTerm = r.Chance(1, 4) // a command that ignores TERM/INT/HUP: only SIGKILL stops it
		if !ps.StartErr && !ps.Fork && ps.LingerMs == 0 && r.Chance(1, 8) {
			// the command leaves a process behind that has left its process group and still holds the output
			// pipe (`setsid -f sleep 3600`, a daemon started from the preview script)
			ps.DetachMs = []int{60000, 600000, 3600000}[r.Intn(3)]
		}
		p.Procs = append(p.Procs, ps)
	}
	p.Events = append(p.Events, sysEvent{Kind: "settle"})
	nev := r.Range(1, 30)
	if tailAim {
		// mark the oldest record, go to the newest, then the rest of the input arrives
		nev = r.Range(0, 6)
		p.Events = append(p.Events, sysEvent{Kind: "keys", Keys: "alt-c"}, sysEvent{Kind: "keys", Keys: "alt-e"}, sysEvent{Kind: "keys", Keys: "alt-d"}, sysEvent{Kind: "settle"})
		for ; feeds > 0; feeds-- {
			p.Events = append(p.Events, sysEvent{Kind: "feed", DelayMs: r.Intn(30)}, sysEvent{Kind: "settle"})
		}
	}
	for i := 0; i < nev; i++ {
		if feeds > 0 && r.Chance(feeds, nev-i) {
			feeds--
			p.Events = append(p.Events, sysEvent{Kind: "feed", DelayMs: r.Intn(30)})
			if r.Bool() {
				p.Events = append(p.Events, sysEvent{Kind: "settle"})
			}
		}
		ev := sysEvent{Kind: "keys", DelayMs: []int{0, 0, 5, 40, 99, 130, 480, 520, 700, 1500}[r.Intn(10)]}
		switch k := r.Intn(10); {
		case k < 6:
			ev.Keys = c20Binds[r.Intn(len(c20Binds))].key
		case k < 8:
			ev.Keys = string(lineAlphabet[r.Intn(len(lineAlphabet))])
		case k < 9:
			ev.Keys = "bspace"
		default:
			ev = sysEvent{Kind: "resize", Cols: r.Range(20, 150), Rows: r.Range(6, 50), DelayMs: r.Intn(200)}
			if narrowWide {
				// cross the threshold of the alternative layout back and forth
				ev.Cols = []int{r.Range(20, 39), r.Range(41, 120)}[i%2]
			}
		}
		p.Events = append(p.Events, ev)
		if r.Chance(1, 4) {
			p.Events = append(p.Events, sysEvent{Kind: "settle"})
		}
	}
	if narrowWide && r.Bool() {
		// the window is hidden by the threshold, the cursor moves on, a foreground command runs - and the
		// terminal gets wide again while it does: the window comes back in the redraw at the end of the command
		p.Events = append(p.Events, sysEvent{Kind: "settle"}, sysEvent{Kind: "resize", Cols: r.Range(20, 39), Rows: r.Range(10, 40)}, sysEvent{Kind: "settle"},
			sysEvent{Kind: "keys", Keys: pick(r, "alt-a", "alt-b", "alt-d", "alt-c")}, sysEvent{Kind: "settle"},
			sysEvent{Kind: "keys", Keys: pick(r, "alt-3", "alt-3", "alt-2")},
			sysEvent{Kind: "resize", Cols: r.Range(41, 120), Rows: r.Range(10, 40), DelayMs: r.Range(100, 800)})
	}
	for ; feeds > 0; feeds-- {
		p.Events = append(p.Events, sysEvent{Kind: "feed", DelayMs: r.Intn(30)})
	}
	p.Events = append(p.Events, sysEvent{Kind: "settle"})
	end := sysEvent{Kind: "keys", DelayMs: []int{0, 10, 200, 520}[r.Intn(4)], Keys: pick(r, "enter", "esc", "ctrl-c")}
	if r.Chance(1, 5) {
		end = sysEvent{Kind: "sig", Sig: "TERM"}
	}
	// a last move right before the end: a preview is likely in flight at exit
	if r.Chance(1, 2) {
		p.Events = append(p.Events, sysEvent{Kind: "keys", Keys: pick(r, "alt-a", "alt-b", "a"), DelayMs: 0})
	}
	p.Events = append(p.Events, end)
	return p
}

var scrollInfoRe = regexp.MustCompile(`\s+\d+/\d+$`)
var scrollTightRe = regexp.MustCompile(`\d+/\d+$`)

func isPreviewProc(p *simos.Proc) bool {
	return strings.HasPrefix(p.Command, "PV")
}

func runC20(c *runCtx) {
	plan := &sysPlan{}
	if !c.loadPlan(plan) {
		plan = genC20Plan(c.rng)
	}
	c.plan = plan
	r := newSysRun(c, plan)
	r.behave = func(r *sysRun, p *simos.Proc) (simos.Script, bool) {
		if strings.HasPrefix(p.Command, "EXQ") {
			// a foreground command that keeps the renderer from drawing for a second or two and prints nothing
			return simos.Script{FinalMs: 900 + 700*(p.Pid%3)}, true
		}
		if !isPreviewProc(p) {
			return simos.Script{}, false
		}
		ps := procSpec{Text: "x\n"}
		if len(plan.Procs) > 0 {
			ps = plan.Procs[r.genSeq["PV"]%len(plan.Procs)]
		}
		r.genSeq["PV"]++
		sc := simos.Script{StartErr: ps.StartErr, Endless: ps.Endless, ExitCode: ps.Exit, Fork: ps.Fork, LingerMs: clampInt(ps.LingerMs, 0, 120000),
			DetachMs: clampInt(ps.DetachMs, 0, 3600000), IgnoreTerm: ps.IgnTerm}
		// text split into chunks of lines
		lines := strings.SplitAfter(ps.Text, "\n")
		if len(lines) > 0 && lines[len(lines)-1] == "" {
			lines = lines[:len(lines)-1]
		}
		if len(ps.Chunks) == 0 {
			d := 0
			if len(ps.DelaysMs) > 0 {
				d = clampInt(ps.DelaysMs[0], 0, 10000)
			}
			if ps.Text != "" || d > 0 {
				sc.Chunks = []simos.Chunk{{DelayMs: d, Data: ps.Text}}
			}
		} else {
			i, k := 0, 0
			for i < len(lines) {
				n := clampInt(ps.Chunks[k%len(ps.Chunks)], 1, len(lines)-i)
				d := 0
				if len(ps.DelaysMs) > 0 {
					d = clampInt(ps.DelaysMs[k%len(ps.DelaysMs)], 0, 10000)
				}
				sc.Chunks = append(sc.Chunks, simos.Chunk{DelayMs: d, Data: strings.Join(lines[i:i+n], "")})
				i += n
				k++
			}
		}
		return sc, true
	}
	maxAlive := 0
	r.onSettle = func(r *sysRun, busy bool, final bool) { c20Settle(r, busy) }
	defer r.cleanup()
	r.start()
	// invariant at every step: at most one preview command (process group) alive and not killed
	r.sim.OnQuiesce = func() bool {
		groups := map[int]bool{}
		for _, p := range r.os.AliveUnkilled() {
			if isPreviewProc(p) {
				groups[p.Pgid] = true
			}
		}
		if len(groups) > maxAlive {
			maxAlive = len(groups)
		}
		if len(groups) > 1 && len(c.viol) == 0 {
			c.violate("c20.two_alive", "%d preview commands are alive at the same time (not killed): %v", len(groups), groups)
			return true
		}
		return false
	}
	ok := r.drive()
	if ok && !r.done && len(c.viol) == 0 {
		r.finish()
	} else {
		r.sim.Stop()
	}
	commonExitChecks(r)
	c.count("probe.max_preview_alive_"+strconv.Itoa(maxAlive), 1)
	np := 0
	for _, p := range r.os.Snapshot() {
		if isPreviewProc(p) && p.Parent == nil {
			np++
			if p.Killed {
				c.count("probe.preview_killed", 1)
			}
		}
	}
	if np > 1 {
		c.count("nontrivial", 1)
	}
	c.state = fmt.Sprintf("previews=%d ev=%d code=%d", np, len(plan.Events), r.code)
}

func c20Settle(r *sysRun, busy bool) {
	c := r.c
	st := r.state()
	if st == nil || st.Reading {
		return
	}
	if busy {
		c.count("settle.busy", 1)
	}
	t := r.t
	var last *simos.Proc
	alive := 0
	for _, p := range r.os.Snapshot() {
		if isPreviewProc(p) && p.Parent == nil {
			last = p
		}
		if isPreviewProc(p) && p.Alive && !p.Killed {
			alive++
		}
	}
	visible := t.hasPreviewWindow()
	if visible && (t.activePreviewOpts.hidden || t.forcePreview) {
		// the window was forced open by a one-off preview(...) (possibly while the regular preview is switched
		// off): it is not refreshed when the state changes - same exclusion as for PVX below
		c.count("settle.one_off_window", 1)
		visible = false
	}
	if !visible {
		// Nothing to show. (A command that was queued before the window got hidden may still be started and run to
		// its natural end while hidden; the statement only speaks of superseded commands, so this is not checked.)
		if alive > 0 {
			c.count("probe.running_while_hidden", 1)
		}
		c.count("settle.hidden", 1)
		return
	}
	c.count("settle.checked", 1)
	if last == nil {
		if len(st.Matches) > 0 {
			c.violate("c20.never_started", "preview window is visible and a line is focused but no preview command was ever started")
		}
		return
	}
	if strings.HasPrefix(last.Command, "PVX") || argValue(r.plan.Args, "--preview") == "" {
		// preview(...) is a one-off: it is not re-run when the state changes afterwards
		c.count("settle.one_off", 1)
		return
	}
	// ... and it was left to run: a command that fzf has killed is one it took for superseded - but nothing
	// came after this one, the window is up and shows its line
	if !busy && last.Killed && len(st.Matches) > 0 {
		c.violate("c20.killed_current", "the preview command that ran last (%q, for the line under the cursor) was killed by fzf %v after its start and nothing was started in its place; it had printed %q", last.Command, last.KilledAt-last.Started, clip([]byte(last.Emitted.String())))
		return
	}
	// argv of the command that ran last must describe the state at settle
	w := shWords(last.Command)
	if len(w) > 1 && strings.HasPrefix(w[1], os.TempDir()) {
		w = append(w[:1], w[2:]...) // {f}
	}
	if len(w) < 4 {
		c.violate("c20.argv", "last preview command %q does not have the template's shape", last.Command)
		return
	}
	if len(st.Matches) == 0 {
		// no line under the cursor: the command runs for the query only
		if w[2] != st.Query {
			c.violate("c20.stale", "no match; last preview command was started with query %q, current query is %q", w[2], st.Query)
		}
		return
	}
	if st.Current < 0 && t.maxItems() <= 0 {
		// no list row fits the window (a few rows, most of them taken by the preview): the cursor is not
		// placed on any line until there is room again - nothing the statement speaks about
		c.count("settle.no_list_rows", 1)
		return
	}
	wantN := strconv.Itoa(int(st.Current))
	wantLine := ""
	loaded, complete := r.loadedInput()
	if !complete {
		c.count("settle.input_incomplete", 1)
		return
	}
	if int(st.Current) >= 0 && int(st.Current) < len(loaded) {
		wantLine = loaded[st.Current]
	}
	var wantSel []string
	for _, s := range st.Selected {
		wantSel = append(wantSel, strconv.Itoa(int(s)))
	}
	if len(wantSel) == 0 {
		wantSel = []string{wantN}
	}
	gotSel := w[4:]
	if w[1] != wantN || w[2] != st.Query || w[3] != wantLine || strings.Join(gotSel, " ") != strings.Join(wantSel, " ") {
		c.violate("c20.stale", "the preview command that ran last is %q: line #%s query %q selection %v; the state at settle is line #%s query %q selection %v (preview switched off=%v, window forced by a one-off preview=%v, can preview=%v)", last.Command, w[1], w[2], gotSel, wantN, st.Query, wantSel, t.activePreviewOpts.hidden, t.forcePreview, t.canPreview())
		return
	}
	// what the pane holds is what that command has emitted
	emitted := last.Emitted.String()
	if k := strings.LastIndex(emitted, "\x1b[2J"); k >= 0 {
		// the clear code restarts the pane within its line
		ls := strings.LastIndex(emitted[:k], "\n") + 1
		_ = ls
		emitted = emitted[k+len("\x1b[2J"):]
	}
	want := strings.SplitAfter(emitted, "\n")
	if len(want) > 0 && want[len(want)-1] == "" {
		want = want[:len(want)-1]
	}
	// A process the command has left behind outside its process group still holds the pipe: to whoever reads
	// it the output is not complete, exactly as if the command were still running.
	lastAlive := last.Alive
	for _, p := range r.os.Snapshot() {
		if p.Detached && p.Parent == last && p.Alive {
			lastAlive = true
			c.count("probe.pipe_held_by_detached_process", 1)
		}
	}
	if lastAlive && len(want) > 0 && !strings.HasSuffix(want[len(want)-1], "\n") {
		// a line is shown once it is complete, or when the output ends
		want = want[:len(want)-1]
	}
	// (a command that is still running and has not produced anything yet leaves the previous content in place)
	if !busy && last.Consumed == last.Emitted.Len() && (!lastAlive || len(want) > 0) {
		got := t.previewer.lines
		if last.ExitCode == 127 && !lastAlive && last.Emitted.Len() == 0 && len(got) == 1 {
			// start failure: the pane shows the error text
		} else if strings.Join(got, "") != strings.Join(want, "") {
			c.violate("c20.pane", "preview pane holds %q, the command that ran last (%q) has emitted %q", clip([]byte(strings.Join(got, ""))), last.Command, clip([]byte(strings.Join(want, ""))))
		}
	}
	// a command that has ended without printing anything leaves nothing behind that says it is still loading
	if !busy && !lastAlive && last.Emitted.Len() == 0 && last.ExitCode != 127 && t.pwindow != nil && len(c.viol) == 0 {
		pw := t.pwindow
		scr := r.tty.Screen()
		for i := 0; i < pw.Height(); i++ {
			row := pw.Top() + i
			if row < 0 || row >= len(scr) {
				continue
			}
			rs := []rune(scr[row])
			for len(rs) < pw.Left()+pw.Width() {
				rs = append(rs, ' ')
			}
			if strings.Contains(string(rs[pw.Left():pw.Left()+pw.Width()]), "Loading ..") {
				c.violate("c20.screen", "the command that ran last (%q) has ended without printing anything, the preview window still says %q\n%s", last.Command, strings.TrimSpace(string(rs[pw.Left():pw.Left()+pw.Width()])), strings.Join(scr, "\n"))
				return
			}
		}
		c.count("probe.silent_command_checked", 1)
	}
	// … and what the pane holds is what is on the screen (simple output: short ASCII lines that fit, no scrolling)
	if !busy && !lastAlive && last.Consumed == last.Emitted.Len() && t.pwindow != nil && len(c.viol) == 0 {
		pw := t.pwindow
		top, left, width, height := pw.Top(), pw.Left(), pw.Width(), pw.Height()
		// (a pane scrolled by hand or by follow mode shows the lines from its scroll offset on - the offset is state,
		// but it has to designate a line that exists: content is never scrolled out of sight altogether)
		off := t.previewer.offset
		if off < 0 && len(want) > 0 {
			// the scroll offset designates a line of the output: with -1 every line is drawn one row too low and
			// the last one that would fit is dropped
			c.violate("c20.last_row_blank", "[an output of exactly as many lines as the preview window has rows: the last row is blank] (or any output: it is drawn from the second row on) the scroll offset of the preview window is %d; the command that ran last (%q) printed %d lines", off, last.Command, len(want))
			return
		}
		simple := len(want) > 0 && !strings.Contains(strings.ReplaceAll(last.Emitted.String(), "\x1b[2J", ""), "\x1b")
		if simple && off >= len(want) && last.ExitCode != 127 {
			c.violate("c20.screen", "the preview window is scrolled to line %d of an output of %d lines: nothing of what the command that ran last (%q) printed is shown", off+1, len(want), last.Command)
			return
		}
		if off > 0 || len(want) > height {
			c.count("probe.preview_scrolled_checked", 1)
		}
		if off < 0 {
			off = 0
		}
		if simple {
			want = want[off:]
			if len(want) > height {
				want = want[:height]
			}
		}
		for _, l := range want {
			tl := strings.TrimRight(l, "\n")
			if len(tl) >= width-1 || strings.ContainsAny(tl, "\t\r") {
				simple = false
			}
			for _, ch := range tl {
				if ch > 126 || ch < 32 {
					simple = false
				}
			}
		}
		if simple && last.ExitCode != 127 {
			scr := r.tty.Screen()
			for i, l := range want {
				row := top + i
				if row < 0 || row >= len(scr) {
					break
				}
				rs := []rune(scr[row])
				for len(rs) < left+width {
					rs = append(rs, ' ')
				}
				got := strings.TrimRight(string(rs[left:left+width]), " ")
				if i == 0 {
					// the first row may carry the scroll indicator "offset/total" at its right end; in a narrow pane
					// it is drawn right over the end of the text ("l1" + "1/5" = "l11/5")
					if m := scrollTightRe.FindString(got); m != "" && len([]rune(got)) >= width-1 {
						got = strings.TrimSuffix(got, m)
						if len(got) < len(strings.TrimRight(strings.TrimRight(l, "\n"), " ")) {
							continue // part of the text is covered: nothing to compare on this row
						}
					}
					got = strings.TrimRight(scrollInfoRe.ReplaceAllString(got, ""), " ")
				}
				wantLine := strings.TrimRight(strings.TrimRight(l, "\n"), " ")
				if i == len(want)-1 && i > 0 && len(want) == height && off == 0 && strings.TrimRight(got, " │|") == "" && wantLine != "" {
					// every row but the last one of a window that the output fills exactly
					c.violate("c20.last_row_blank", "[an output of exactly as many lines as the preview window has rows: the last row is blank] the command that ran last (%q) printed %d lines, the window has %d rows, row %d is empty instead of showing %q\n%s", last.Command, len(want), height, i, wantLine, strings.Join(scr, "\n"))
					break
				}
				if !strings.HasPrefix(got, wantLine) || strings.TrimRight(strings.TrimPrefix(got, wantLine), " │|") != "" {
					c.violate("c20.screen", "preview window row %d shows %q, the command that ran last (%q) printed %q as line %d\n%s", i, got, last.Command, wantLine, i, strings.Join(scr, "\n"))
					break
				}
			}
			c.count("probe.preview_screen_checked", 1)
		}
	}
	if alive > 0 {
		c.count("probe.preview_still_running_at_settle", 1)
	}
}

var _ = zsim.Mix

func init() {
	scenarios["c20"] = scenario{bubble: true, run: runC20}
}
