//go:build verif

package fzf

// C16: the --listen endpoint is robust and enforces its access rules.

import (
	"encoding/json"
	"fmt"
	"os"
	"strconv"
	"strings"
	"time"

	"github.com/junegunn/fzf/src/zsim"
	"github.com/junegunn/fzf/src/zsim/simnet"
)

// httpSpec is a request described by construction, so that its class is known
// without looking at what the server does.
type httpSpec struct {
	Garbage   []byte `json:"garbage,omitempty"` // raw bytes instead of a structured request
	Method    string `json:"method"`
	Path      string `json:"path"`
	Version   string `json:"version"`
	KeyMode   int    `json:"key_mode"`  // 0 none 1 exact 2 prefix 3 suffix 4 case-variant 5 wrong 6 empty 7 exact+trailing-space
	KeyName   int    `json:"key_name"`  // header name spelling
	LenMode   int    `json:"len_mode"`  // 0 exact 1 missing 2 zero 3 oversize 4 non-numeric 5 negative
	Body      string `json:"body"`      // action list
	BodyKind  int    `json:"body_kind"` // 0 put(id) 1 invalid action 2 empty 3 body with an embedded CRLF 4 process-executing action + put(id)
	ID        int    `json:"id"`
	Frags     []int  `json:"frags"`                // fragment sizes (cycled); empty = all at once
	GapsMs    []int  `json:"gaps_ms"`              // pause before each fragment
	CloseAt   int    `json:"close_at"`             // close the connection after this many bytes (0 = read the response)
	Wait      bool   `json:"wait"`                 // wait for this exchange to end before the next event
	Probe     bool   `json:"probe,omitempty"`      // sent while the UI is busy and the hand-over queue is full: still to be answered soon
	StallMs   int    `json:"stall_ms,omitempty"`   // the client sends its request and then does not read for this long
	TrailCRLF bool   `json:"trail_crlf,omitempty"` // the body (kind 0) ends in CRLF, counted in Content-Length
	PadKB     int    `json:"pad_kb,omitempty"`     // the body (kind 0) carries a change-header(...) of this many KiB (below the 1 MiB bound)
}

const c16Key = "s3cr3t-Key"

func (h *httpSpec) marker() string { return fmt.Sprintf("q%d.", h.ID) }

func (h *httpSpec) build(keyConfigured bool) (req []byte, class string, authorised bool) {
	if h.Garbage != nil {
		return h.Garbage, "garbage", false
	}
	var hdr []string
	switch ((h.KeyMode % 8) + 8) % 8 {
	case 0:
		authorised = !keyConfigured
	case 1:
		authorised = true
	case 2:
		authorised = !keyConfigured
	case 3:
		authorised = !keyConfigured
	case 4:
		authorised = !keyConfigured
	case 5:
		authorised = !keyConfigured
	case 6:
		authorised = !keyConfigured
	case 7:
		authorised = true // surrounding blanks are not part of a header value
	}
	keyVal := map[int]string{1: c16Key, 2: c16Key[:5], 3: c16Key + "x", 4: strings.ToUpper(c16Key), 5: "nope", 6: "", 7: c16Key + " "}
	if km := ((h.KeyMode % 8) + 8) % 8; km != 0 {
		name := []string{"x-api-key", "X-API-Key", "X-Api-Key", "X-API-KEY"}[((h.KeyName%4)+4)%4]
		hdr = append(hdr, name+": "+keyVal[km])
	}
	body := ""
	switch bk := h.bodyKind(); bk {
	case 0:
		body = "put(" + h.marker() + ")"
		if h.CloseAt < 0 {
			body += "+up"
		}
		if h.PadKB > 0 {
			body += "+change-header(" + strings.Repeat("x", clampInt(h.PadKB, 1, 900)*1024) + ")"
		}
		if h.TrailCRLF {
			body += "\r\n"
		}
	case 1:
		body = "no-such-action(" + h.marker() + ")"
	case 3:
		body = "up\r\ndown"
	default:
		if bk >= 4 {
			// every action that runs a command (a non-local listener drops them unless --listen-unsafe)
			body = c16ExecActions[bk-4] + "(EX 9)+execute-silent(EX 8)+put(" + h.marker() + ")"
		}
	}
	valid := true
	switch ((h.LenMode % 6) + 6) % 6 {
	case 0:
		hdr = append(hdr, "Content-Length: "+strconv.Itoa(len(body)))
		if len(body) == 0 {
			valid = false
		}
	case 1:
		valid = false
	case 2:
		hdr = append(hdr, "Content-Length: 0")
		valid = false
	case 3:
		hdr = append(hdr, "Content-Length: 1048577")
		valid = false
	case 4:
		hdr = append(hdr, "Content-Length: abc")
		valid = false
	case 5:
		hdr = append(hdr, "Content-Length: -5")
		valid = false
	}
	line := h.Method + " " + h.Path + " " + h.Version
	isGet := h.Method == "GET" && (h.Path == "/" || strings.HasPrefix(h.Path, "/?") && len(h.Path) > 2 && strings.Trim(h.Path[2:], "abcdefghijklmnopqrstuvwxyz0123456789=&") == "") && strings.HasPrefix(h.Version, "HTTP")
	isPost := h.Method == "POST" && h.Path == "/" && strings.HasPrefix(h.Version, "HTTP")
	switch {
	case isGet:
		class = "get"
		req = []byte(line + "\r\n" + strings.Join(hdr, "\r\n") + "\r\n\r\n")
		if len(hdr) == 0 {
			req = []byte(line + "\r\n\r\n")
		}
		return req, class, authorised
	case isPost:
		req = []byte(line + "\r\n" + strings.Join(append(hdr, ""), "\r\n") + "\r\n" + body)
		if bk := h.bodyKind(); valid && (bk == 0 || bk >= 4) {
			class = "post-valid"
		} else if valid && bk == 3 {
			class = "post-crlf"
		} else {
			class = "post-bad"
		}
		return req, class, authorised
	}
	req = []byte(line + "\r\n" + strings.Join(append(hdr, ""), "\r\n") + "\r\n" + body)
	return req, "bad-request-line", authorised
}

type httpResult struct {
	spec     *httpSpec
	class    string
	auth     bool
	resp     []byte
	dialed   bool
	closedBy string // "client-early" | "server" | "timeout"
	started  time.Duration
	ended    time.Duration
	done     bool
	sentAll  bool
	alone    bool          // no other exchange was in flight when it started
	sentDone time.Duration // when the last byte of the request had been written
}

type c16Plan struct {
	sysPlan
	HTTP   []httpSpec `json:"http"` // referenced by events of kind "http" through ev.Cols (index)
	Addr   string     `json:"addr"`
	UseKey bool       `json:"use_key"`
	// SockBuf: socket buffers hold this many bytes of response (0: everything): a client that does not read
	// makes the server's write wait
	SockBuf int `json:"sock_buf,omitempty"`
	// KeyBlank: FZF_API_KEY consists of white space only. That is a key (fzf starts on a non-local address),
	// and no request can present it: a header value never begins or ends with white space
	KeyBlank bool `json:"key_blank,omitempty"`
	Unsafe   bool `json:"unsafe"`
	// UnsafeFirst: `--listen-unsafe ADDR0 --listen ADDR` – the later plain --listen wins, so the listener is not unsafe
	UnsafeFirst bool `json:"unsafe_first"`
	// StartPut: `--bind start:put(q999999.)`, and the first requests are sent before the interface has come to rest:
	// a list of actions bound to a key can never run before the start event's, so neither can a POSTed one
	StartPut bool `json:"start_put,omitempty"`
}

// actions that start a process (man page: everything that takes a command)
var c16ExecActions = []string{"execute-silent", "transform-ghost", "transform-search", "transform-nth", "transform-pointer",
	"transform-header-label", "transform-input-label", "transform-list-label", "transform-border-label", "transform-preview-label",
	"transform-header", "transform-prompt", "transform", "preview", "change-preview"}

func (h *httpSpec) bodyKind() int {
	n := 4 + len(c16ExecActions)
	return ((h.BodyKind % n) + n) % n
}

func genHTTPSpec(r *zsim.Rng, id int) httpSpec {
	h := httpSpec{ID: id, Method: "POST", Path: "/", Version: "HTTP/1.1"}
	switch r.Intn(10) {
	case 0, 1, 2, 3: // valid-looking POST with a random key situation
		h.KeyMode = []int{0, 1, 1, 1, 2, 3, 4, 5, 6, 7}[r.Intn(10)]
	case 4, 5: // GET
		h.Method = "GET"
		h.Path = pick(r, "/", "/?limit=2", "/?limit=1&offset=1", "/?offset=100")
		h.KeyMode = []int{0, 1, 1, 5, 2}[r.Intn(5)]
	case 6: // malformed length
		h.LenMode = 1 + r.Intn(5)
		h.KeyMode = []int{0, 1, 1}[r.Intn(3)]
	case 7: // bad request line
		h.Method = pick(r, "PUT", "post", "DELETE", "", "GET")
		h.Path = pick(r, "/", "/x", "/?a=B", "*")
		h.Version = pick(r, "HTTP/1.1", "HTTX", "")
		if h.Method == "GET" && h.Path == "/" && strings.HasPrefix(h.Version, "HTTP") {
			h.Path = "/nope"
		}
		h.KeyMode = r.Intn(2)
	case 8: // invalid / empty action list, embedded CRLF, process-executing action
		h.BodyKind = 1 + r.Intn(3+len(c16ExecActions))
		h.KeyMode = []int{0, 1, 1}[r.Intn(3)]
	default: // arbitrary bytes
		n := r.Range(0, 60)
		b := make([]byte, n)
		for i := range b {
			b[i] = "POST GET/ HTTP1.\r\n:x-api-keycontent-length09 \x00\xff"[r.Intn(46)]
		}
		h.Garbage = b
	}
	h.KeyName = r.Intn(4)
	if h.Method == "POST" && h.bodyKind() == 0 && h.LenMode == 0 && len(h.Garbage) == 0 {
		h.TrailCRLF = r.Chance(1, 6)
		if r.Chance(1, 10) {
			h.PadKB = []int{1, 63, 64, 65, 70, 300}[r.Intn(6)]
		}
	}
	if r.Chance(1, 2) {
		for i := r.Range(1, 5); i > 0; i-- {
			h.Frags = append(h.Frags, []int{1, 2, 7, 20, 100}[r.Intn(5)])
			h.GapsMs = append(h.GapsMs, []int{0, 0, 5, 100, 2500, 11000}[r.Intn(6)])
		}
	}
	if r.Chance(1, 8) {
		h.CloseAt = r.Range(1, 80)
		if h.Method == "POST" && h.bodyKind() == 0 && r.Bool() {
			// the connection is closed when all but the last action of the list has been sent: what has arrived
			// is a well-formed list of its own, but not the request
			h.CloseAt = -1
		}
	}
	h.Wait = r.Chance(1, 2)
	return h
}

func genC16Plan(r *zsim.Rng) *c16Plan {
	p := &c16Plan{}
	p.Match = genMatchCfg(r)
	p.Match.Tac = false
	p.Cols, p.Rows = r.Range(40, 120), r.Range(10, 40)
	p.Lines = lineSpec{N: r.Range(0, 40), Seed: r.Seed53(), Shape: r.Intn(4)}
	p.Multi = -1
	p.Addr = pick(r, "localhost:0", "127.0.0.1:6266", "6266", "0.0.0.0:6266", "192.168.1.5:0", ":6266", "localhost:6266")
	p.UseKey = r.Chance(3, 5)
	p.KeyBlank = p.UseKey && r.Chance(1, 10)
	p.Unsafe = r.Chance(1, 8)
	p.UnsafeFirst = !p.Unsafe && r.Chance(1, 6)
	// alt-j: jump mode - the next key is taken for a label; actions that come in through the endpoint are not keys
	p.Args = append(p.Args, "--bind", "alt-e:execute-silent(EX 1)", "--bind", "alt-j:jump")
	p.Events = append(p.Events, sysEvent{Kind: "settle"})
	n := r.Range(1, 14)
	for i := 0; i < n; i++ {
		p.HTTP = append(p.HTTP, genHTTPSpec(r, i))
		p.Events = append(p.Events, sysEvent{Kind: "http", Cols: i, DelayMs: []int{0, 0, 3, 50, 400}[r.Intn(5)]})
		if r.Chance(1, 6) {
			p.Events = append(p.Events, sysEvent{Kind: "keys", Keys: pick(r, "up", "alt-e", "down", "alt-j", "alt-j"), DelayMs: r.Intn(30)})
		}
	}
	// a process-executing action sent over the network (must be filtered on a non-local listener unless --listen-unsafe)
	if r.Chance(1, 2) {
		p.HTTP = append(p.HTTP, httpSpec{ID: n, Method: "POST", Path: "/", Version: "HTTP/1.1", KeyMode: 1, BodyKind: 4 + r.Intn(len(c16ExecActions)), Wait: true})
		p.Events = append(p.Events, sysEvent{Kind: "http", Cols: n})
		n++
	}
	// Targeted mode: the UI is busy with a command for a minute while more valid POSTs arrive than the
	// hand-over queue to the terminal holds (100). The surplus is to be turned away (503 after a short wait),
	// never to block the accept loop: a GET sent after the flood is answered long before the command ends.
	if r.Chance(1, 12) {
		p.Addr = "localhost:6266"
		p.Unsafe, p.UnsafeFirst = false, false
		p.Procs = []procSpec{{FinalMs: 60000}}
		p.HTTP, p.Events = nil, []sysEvent{{Kind: "settle"}, {Kind: "keys", Keys: "alt-e"}}
		n = 0
		for ; n < 100+r.Range(1, 3); n++ {
			p.HTTP = append(p.HTTP, httpSpec{ID: n, Method: "POST", Path: "/", Version: "HTTP/1.1", KeyMode: 1, KeyName: r.Intn(4)})
			p.Events = append(p.Events, sysEvent{Kind: "http", Cols: n, DelayMs: []int{0, 0, 1}[r.Intn(3)]})
		}
		p.HTTP = append(p.HTTP, httpSpec{ID: n, Method: "GET", Path: "/", Version: "HTTP/1.1", KeyMode: 1, Wait: true, Probe: true})
		p.Events = append(p.Events, sysEvent{Kind: "http", Cols: n, DelayMs: 100})
		n++
	}
	// Targeted mode: a client asks for the state - a response larger than the socket buffers - and does not
	// read it. The server may give up on that client; it must go on answering the others.
	if r.Chance(1, 12) {
		p.Addr = "localhost:6266"
		p.UseKey, p.KeyBlank, p.Unsafe, p.UnsafeFirst = false, false, false, false
		p.Lines.N = r.Range(120, 400)
		p.SockBuf = []int{256, 1024, 4096}[r.Intn(3)]
		p.HTTP, p.Events = nil, []sysEvent{{Kind: "settle"}}
		p.HTTP = append(p.HTTP, httpSpec{ID: 0, Method: "GET", Path: "/", Version: "HTTP/1.1", StallMs: r.Range(60000, 200000)})
		p.Events = append(p.Events, sysEvent{Kind: "http", Cols: 0})
		n = 1
		for k := r.Range(1, 3); k > 0; k-- {
			p.HTTP = append(p.HTTP, httpSpec{ID: n, Method: pick(r, "GET", "POST"), Path: "/", Version: "HTTP/1.1", Wait: true, Probe: true})
			p.Events = append(p.Events, sysEvent{Kind: "http", Cols: n, DelayMs: r.Range(200, 3000)})
			n++
		}
	}
	// while the UI is busy: a POST that runs a slow foreground-ish command, then more requests
	if r.Chance(1, 4) && len(p.Procs) == 0 {
		p.Procs = append(p.Procs, procSpec{DelaysMs: []int{r.Range(500, 4000)}})
	}
	if r.Chance(1, 5) && len(p.Events) > 0 && p.Events[0].Kind == "settle" {
		p.StartPut = true
		p.Events = p.Events[1:]
	}
	p.Events = append(p.Events, sysEvent{Kind: "httpwait"}, sysEvent{Kind: "settle"})
	// the server must still answer a valid, authorised GET after everything
	p.HTTP = append(p.HTTP, httpSpec{ID: n, Method: "GET", Path: "/", Version: "HTTP/1.1", KeyMode: 1, Wait: true})
	p.Events = append(p.Events, sysEvent{Kind: "http", Cols: n}, sysEvent{Kind: "settle"})
	return p
}

func runC16(c *runCtx) {
	plan := &c16Plan{}
	if !c.loadPlan(plan) {
		plan = genC16Plan(c.rng)
	}
	c.plan = plan
	sp := &plan.sysPlan
	sp.Args = append([]string{"--listen", plan.Addr}, sp.Args...)
	if plan.Unsafe {
		sp.Args[0] = "--listen-unsafe"
	}
	nExtra := 2
	if plan.StartPut {
		sp.Args = append([]string{"--bind", "start:put(q999999.)"}, sp.Args...)
		nExtra += 2
	}
	if plan.UnsafeFirst && !plan.Unsafe {
		sp.Args = append([]string{"--listen-unsafe", "localhost:7777"}, sp.Args...)
		nExtra += 2
	}
	defer func() { sp.Args = sp.Args[nExtra:] }()
	r := newSysRun(c, sp)
	nw := simnet.New()
	simnet.SockBuf = clampInt(plan.SockBuf, 0, 1<<20)
	defer func() { simnet.Cur = nil; simnet.SockBuf = 0 }()
	oldKey, hadKey := os.LookupEnv("FZF_API_KEY")
	if plan.UseKey && plan.KeyBlank {
		os.Setenv("FZF_API_KEY", " \t  ")
	} else if plan.UseKey {
		os.Setenv("FZF_API_KEY", c16Key)
	} else {
		os.Unsetenv("FZF_API_KEY")
	}
	defer func() {
		if hadKey {
			os.Setenv("FZF_API_KEY", oldKey)
		} else {
			os.Unsetenv("FZF_API_KEY")
		}
	}()
	// a bare port and ":port" mean localhost (man page: "--listen[=[ADDR:]PORT]", default address localhost)
	local := plan.Addr != "" && strings.Trim(plan.Addr, "0123456789") == "" || strings.HasPrefix(plan.Addr, ":") || strings.HasPrefix(plan.Addr, "localhost") || strings.HasPrefix(plan.Addr, "127.0.0.1")
	results := make([]*httpResult, len(plan.HTTP))
	pending := 0
	sysEventHandlers["http"] = func(r *sysRun, ev *sysEvent) {
		if ev.Cols < 0 || ev.Cols >= len(plan.HTTP) {
			return
		}
		spec := &plan.HTTP[ev.Cols]
		if results[ev.Cols] != nil {
			return
		}
		res := &httpResult{spec: spec}
		results[ev.Cols] = res
		req, class, auth := spec.build(plan.UseKey)
		if plan.UseKey && plan.KeyBlank {
			auth = false
		}
		res.class, res.auth = class, auth
		conn := nw.Dial()
		if conn == nil {
			return
		}
		res.dialed = true
		res.started = r.sim.Now()
		res.alone = pending == 0
		pending++
		fin := make(chan struct{})
		r.sim.Go(fmt.Sprintf("ext/http%d", ev.Cols), func() {
			defer func() {
				zsim.Yield("http.done")
				res.done = true
				res.ended = r.sim.Now()
				pending--
				close(fin)
			}()
			sent := 0
			k := 0
			for sent < len(req) {
				n := len(req) - sent
				if len(spec.Frags) > 0 {
					if f := spec.Frags[k%len(spec.Frags)]; f > 0 && f < n {
						n = f
					}
					if g := clampInt(spec.GapsMs[k%len(spec.GapsMs)], 0, 15000); g > 0 && k < 6 {
						time.Sleep(time.Duration(g) * time.Millisecond)
						zsim.Yield("http-client-wake")
						if g > 9000 {
							c.count("fault.http_stall_past_timeout", 1)
						}
					}
					c.count("fault.http_fragment", 1)
				}
				closeAt := spec.CloseAt
				if closeAt < 0 {
					closeAt = len(req) - len("+up")
				}
				if closeAt > 0 && closeAt < len(req) && sent+n >= closeAt {
					n = closeAt - sent
					if n > 0 {
						conn.Write(req[sent : sent+n])
					}
					conn.Close()
					res.closedBy = "client-early"
					c.count("fault.http_early_close", 1)
					return
				}
				if _, err := conn.Write(req[sent : sent+n]); err != nil {
					break
				}
				sent += n
				k++
			}
			res.sentAll = sent == len(req)
			res.sentDone = r.sim.Now()
			if spec.StallMs > 0 {
				// a client that has gone to sleep with the connection open
				time.Sleep(time.Duration(clampInt(spec.StallMs, 0, 600000)) * time.Millisecond)
				zsim.Yield("http-client-wake")
				c.count("fault.http_client_stalls_before_reading", 1)
			}
			// read the response until the server closes (or give up after 30 simulated seconds)
			conn.SetReadDeadline(time.Now().Add(600 * time.Second))
			buf := make([]byte, 4096)
			for {
				n, err := conn.Read(buf)
				res.resp = append(res.resp, buf[:n]...)
				if err != nil {
					if strings.Contains(err.Error(), "timeout") {
						res.closedBy = "timeout"
					} else {
						res.closedBy = "server"
					}
					break
				}
			}
			conn.Close()
		})
		if spec.Wait {
			<-fin
		}
	}
	sysEventHandlers["httpwait"] = func(r *sysRun, ev *sysEvent) {
		// all exchanges come to an end (answered, closed, or timed out) before the final settle
		for i := 0; i < 4000 && pending > 0; i++ {
			time.Sleep(250 * time.Millisecond)
			zsim.Yield("httpwait")
		}
	}
	defer delete(sysEventHandlers, "http")
	defer delete(sysEventHandlers, "httpwait")
	r.onSettle = func(r *sysRun, busy bool, final bool) {}
	defer r.cleanup()
	r.start()
	ok := r.drive()
	// non-local listener without a key must refuse to start
	if !local && !plan.UseKey {
		if !r.done || r.code != ExitError {
			c.violate("c16.remote_without_key", "--listen %s without FZF_API_KEY: fzf did not refuse to start (done=%v exit=%d)", plan.Addr, r.done, r.code)
		}
		if len(nw.Listens) > 0 {
			c.violate("c16.remote_without_key", "--listen %s without FZF_API_KEY: a listener was opened", plan.Addr)
		}
		r.sim.Stop()
		c.count("probe.remote_refused", 1)
		commonExitChecks(r)
		return
	}
	// an execute-silent started by a POST may outlast the settle horizon (its process just sits there for
	// seconds): the actions chained behind it only run when it ends
	atRest := true
	for k := 0; k < 20 && ok && !r.done; k++ {
		alive := false
		for _, p := range r.os.Snapshot() {
			alive = alive || p.Alive
		}
		if !alive && (r.t == nil || len(r.t.serverInputChan) == 0) {
			if k > 0 {
				// the command has just ended (possibly in the last window of the wait above): what was queued
				// behind it is being worked off now
				atRest, _ = r.settle(60)
				atRest = atRest && (r.t == nil || len(r.t.serverInputChan) == 0)
			}
			break
		}
		r.settle(10)
	}
	if local {
		// what is treated as local must be bound to the loopback interface only
		for _, a := range nw.Listens {
			if !strings.HasPrefix(a, "localhost:") && !strings.HasPrefix(a, "127.0.0.1:") {
				c.violate("c16.bind", "--listen %s is handled as a local address (no key demanded, all actions allowed) but the listener was opened on %q", plan.Addr, a)
			}
		}
	}
	st := r.state()
	if ok && !r.done {
		r.finish()
	} else {
		r.sim.Stop()
	}
	commonExitChecks(r)
	if st == nil {
		return
	}
	// per-connection oracle
	wantQuery := ""
	for i, res := range results {
		if res == nil || !res.dialed {
			continue
		}
		if !res.done {
			if res.spec.StallMs > 0 {
				continue // the client is still asleep: its exchange is nobody's fault
			}
			c.violate("c16.wedged", "request %d (%s) was never answered nor closed", i, res.class)
			continue
		}
		if res.closedBy == "client-early" {
			continue
		}
		if res.spec.StallMs >= 9000 {
			// a client that did not read for about the server's patience may find its answer cut short
			continue
		}
		status, clen, body, wellFormed := parseHTTPResponse(res.resp)
		if res.closedBy == "timeout" || !wellFormed {
			c.violate("c16.response", "request %d (%s, sent completely: %v): answer %q is not one well-formed HTTP/1.1 response (closed by %s after %v)", i, res.class, res.sentAll, clip(res.resp), res.closedBy, res.ended-res.started)
			continue
		}
		if clen != len(body) {
			c.violate("c16.response", "request %d: Content-Length %d but %d body bytes", i, clen, len(body))
		}
		// a client that pauses for about the read timeout (10 s) in total may legitimately be cut short
		stalled := false
		total := 0
		if len(res.spec.Frags) > 0 {
			for k := 0; k < 6 && k < 64; k++ {
				total += clampInt(res.spec.GapsMs[k%len(res.spec.GapsMs)], 0, 15000)
			}
		}
		if total > 9000 {
			stalled = true
		}
		if res.spec.PadKB > 0 && len(res.spec.Frags) > 0 {
			// hundreds of kilobytes a few bytes at a time: may take longer than the server waits
			stalled = true
		}
		c.count("status."+strconv.Itoa(status), 1)
		// the read timeout bounds the whole request: one that needed more than 10 s to arrive - with nobody
		// else keeping the server from accepting it at once - cannot have been read completely
		if res.alone && res.sentAll && status == 200 && (res.class == "post-valid" || res.class == "get") && res.spec.LenMode == 0 &&
			!res.spec.TrailCRLF && res.spec.PadKB == 0 && res.sentDone-res.started > 11*time.Second {
			c.violate("c16.read_timeout", "request %d (%s) took %v to arrive (the server was free to accept it at once) and was answered 200: the read timeout of 10 s is for the request as a whole", i, res.class, res.sentDone-res.started)
		}
		if res.sentDone-res.started > 11*time.Second {
			c.count("probe.request_longer_than_read_timeout", 1)
		}
		switch res.class {
		case "get":
			if stalled && (status == 400 || status == 401) {
				break // cut short by the read timeout: rejected without effect
			}
			if !res.auth {
				if status != 401 {
					c.violate("c16.get_without_key", "GET without the exact API key was answered %d (expected 401); body %q", status, clip(body))
				}
			} else if status == 200 {
				var js map[string]any
				if json.Unmarshal(body, &js) != nil {
					c.violate("c16.get_json", "authorised GET: body is not JSON: %q", clip(body))
				}
			} else if status != 503 {
				c.violate("c16.get_status", "authorised GET answered %d", status)
			}
		case "post-valid":
			switch {
			case stalled:
				// the documented read timeout may have cut the request short: 400 or, if it made it, 200
				if status == 200 && res.auth {
					wantQuery += res.spec.marker()
				}
			case res.auth && status == 200:
				wantQuery += res.spec.marker()
			case res.auth && status == 503:
				// UI busy past the channel timeout: rejected without effect
			case stalled && (status == 400 || status == 401):
			case res.auth:
				c.violate("c16.post_status", "valid authorised POST %d answered %d: %q", i, status, clip(body))
			case status != 401:
				c.violate("c16.post_unauthorised", "POST %d without the exact API key answered %d (expected 401)", i, status)
			}
		case "post-bad", "bad-request-line":
			if status == 200 {
				c.violate("c16.bad_accepted", "malformed request %d (%s) answered 200: %q", i, res.class, clip(res.resp))
			}
			if !res.auth && plan.UseKey && status != 401 && status != 400 {
				c.violate("c16.bad_status", "request %d answered %d", i, status)
			}
		case "garbage":
			if status != 400 && status != 401 && !(status == 200 && false) {
				// arbitrary bytes: only robustness is asserted
			}
		}
	}
	// a request that was sent completely and without long pauses is answered promptly, not at the read timeout
	for i, res := range results {
		if res == nil || !res.done || !res.sentAll || res.closedBy != "server" {
			continue
		}
		total := 0
		if len(res.spec.Frags) > 0 {
			for k := 0; k < 6; k++ {
				total += clampInt(res.spec.GapsMs[k%len(res.spec.GapsMs)], 0, 15000)
			}
		}
		complete := res.class == "post-valid" || res.class == "post-crlf" || res.class == "get"
		if res.spec.Probe && res.ended-res.started > 30*time.Second {
			c.violate("c16.slow_answer", "request %d (%s) was sent while the terminal was busy with a command (its queue full) or another client was not reading its answer; it was answered only after %v (the accept loop may spend 2 s on each surplus request and some 10 s on a client that does not read, not until the command ends or the client wakes up)", i, res.class, res.ended-res.started)
		}
		anyPad := false
		for k := range plan.HTTP {
			anyPad = anyPad || plan.HTTP[k].PadKB > 0
		}
		if complete && res.alone && total == 0 && res.spec.Wait && !anyPad && res.ended-res.started > 8*time.Second {
			// (not in sessions with bodies of hundreds of kilobytes: reading them, and then drawing a header
			// of that size, takes the simulated process simulated seconds)
			c.violate("c16.slow_answer", "request %d (%s) was sent at once but answered only after %v", i, res.class, res.ended-res.started)
		}
	}
	// a non-local listener without --listen-unsafe never runs process-executing actions from the network
	if !local && !plan.Unsafe {
		for _, p := range r.os.Snapshot() {
			if p.Command == "EX 9" || p.Command == "EX 8" {
				c.violate("c16.remote_exec", "non-local listener %s without --listen-unsafe: a POST spawned %q", plan.Addr, p.Command)
				break
			}
		}
	}
	// actions arrive exactly once, in connection order, and nothing else arrives
	typed := ""
	for _, ev := range sp.Events {
		if ev.Kind == "keys" {
			switch ev.Keys {
			case "a":
				typed += "a"
			}
		}
	}
	got := st.Query
	if !atRest {
		c.count("settle.busy_at_end", 1)
	} else if plan.StartPut && stripTyped(got) != "q999999."+wantQuery && len(c.viol) == 0 {
		c.violate("c16.actions", "query after all requests is %q; the start binding puts %q first, then the authorised valid POSTs answered 200 should have added exactly %q (each once, in order): no list of actions bound to a key runs before the start event's", got, "q999999.", wantQuery)
	} else if !plan.StartPut && stripTyped(got) != wantQuery && len(c.viol) == 0 {
		c.violate("c16.actions", "query after all requests is %q; the authorised valid POSTs answered 200 should have produced exactly %q (each once, in order)", got, wantQuery)
	}
	// a non-local listener never runs process-executing actions from the network … (none are sent; the key binding may)
	if wantQuery != "" {
		c.count("nontrivial", 1)
	}
	last := results[len(results)-1]
	if last != nil && last.dialed && last.done {
		status, _, _, wf := parseHTTPResponse(last.resp)
		if plan.UseKey && plan.KeyBlank {
			// nobody can present a key of white space: the server is alive if it says so
			if !wf || status != 401 {
				c.violate("c16.wedged", "after all requests a GET was answered %q (expected 401: the configured key is white space)", clip(last.resp))
			}
		} else if !wf || (status != 200 && status != 503) {
			c.violate("c16.wedged", "after all requests a valid authorised GET was answered %q", clip(last.resp))
		} else {
			c.count("probe.final_get_ok", 1)
		}
	} else if last != nil && r.done == false {
		c.violate("c16.wedged", "the final GET could not be completed (dialed=%v done=%v)", last.dialed, last.done)
	}
	c.state = fmt.Sprintf("reqs=%d q=%d", len(results), len(got))
}

// stripTyped removes what the keyboard contributed (single 'a' characters typed between markers).
func stripTyped(q string) string {
	var b strings.Builder
	i := 0
	for i < len(q) {
		if q[i] == 'q' {
			j := strings.IndexByte(q[i:], '.')
			if j > 0 {
				b.WriteString(q[i : i+j+1])
				i += j + 1
				continue
			}
		}
		i++
	}
	return b.String()
}

func parseHTTPResponse(resp []byte) (status int, clen int, body []byte, ok bool) {
	s := string(resp)
	i := strings.Index(s, "\r\n")
	if i < 0 || !strings.HasPrefix(s, "HTTP/1.1 ") {
		return 0, 0, nil, false
	}
	f := strings.Fields(s[:i])
	if len(f) < 2 {
		return 0, 0, nil, false
	}
	status, err := strconv.Atoi(f[1])
	if err != nil {
		return 0, 0, nil, false
	}
	switch status {
	case 200, 400, 401, 503:
	default:
		return status, 0, nil, false
	}
	rest := s[i+2:]
	clen = -1
	for {
		j := strings.Index(rest, "\r\n")
		if j < 0 {
			// a bare status line (fzf answers "HTTP/1.1 200 OK\r\n" to a POST)
			if rest == "" {
				return status, 0, nil, true
			}
			return status, 0, nil, false
		}
		line := rest[:j]
		rest = rest[j+2:]
		if line == "" {
			break
		}
		kv := strings.SplitN(line, ":", 2)
		if len(kv) != 2 {
			return status, 0, nil, false
		}
		if strings.EqualFold(kv[0], "content-length") {
			clen, err = strconv.Atoi(strings.TrimSpace(kv[1]))
			if err != nil {
				return status, 0, nil, false
			}
		}
	}
	body = []byte(rest)
	if clen < 0 {
		clen = len(body)
	}
	return status, clen, body, true
}

func init() {
	scenarios["c16"] = scenario{bubble: true, run: runC16}
}
