//go:build verif

package fzf

// C16, last clause: "a POST body is executed exactly as the same action list
// would be from --bind". Differential: the same seeded sequence of action lists
// is delivered to two otherwise identical simulated sessions - once as POST
// bodies to the --listen endpoint (each answered 200 before the next is sent),
// once through keys the lists are bound to - and after every list the two
// sessions must be in the same state (query, query cursor, list cursor,
// selection in selection order, match list). Neither session is the oracle of
// the other; C09's model decides what the right state is.

import (
	"fmt"
	"strings"
	"time"

	"github.com/junegunn/fzf/src/zsim"
	"github.com/junegunn/fzf/src/zsim/simnet"
)

type c16dPlan struct {
	sysPlan
	Steps []string `json:"steps"` // action lists
}

var c16dVocabulary = []string{
	"up", "down", "first", "last", "pos(3)", "pos(-1)", "page-up", "page-down", "half-page-down", "next-selected", "prev-selected",
	"toggle", "toggle+down", "toggle-in", "toggle-out", "select-all", "deselect-all", "toggle-all", "clear-selection", "select", "deselect",
	"beginning-of-line", "end-of-line", "backward-char", "forward-char", "backward-word", "forward-word",
	"delete-char", "backward-delete-char", "kill-line", "kill-word", "backward-kill-word", "unix-line-discard", "unix-word-rubout", "yank",
	"clear-query", "replace-query", "change-query(ab)", "change-query(c d)", "put(e)", "put(a b)", "put( )", "put(日é)",
	"toggle-sort", "change-multi(2)", "change-multi", "change-prompt(p> )", "toggle-search", "search(ab)", "exclude", "change-nth(2)", "change-nth()",
	// (no toggle-track: where a tracked line has gone, the cursor falls back on its screen row, i.e. on the
	// scroll offset, which depends on which intermediate lists happened to be drawn)
	"offset-up", "offset-down", "change-header(h)", "toggle-header", "toggle-input",
	// commands: what gets started must be the same either way (a local listener may run them)
	"preview(PVD {n})", "change-preview(PVE {n})", "execute-silent(EXD {n})",
	// the preview window opened and closed explicitly (bound lists run these first - so must posted ones)
	"show-preview", "hide-preview", "hide-preview",
}

func genC16dPlan(r *zsim.Rng) *c16dPlan {
	p := &c16dPlan{}
	p.Match = genMatchCfg(r)
	p.Match.Tac = r.Chance(1, 5)
	p.Cols, p.Rows = r.Range(30, 100), r.Range(6, 30)
	n := []int{0, 1, r.Range(2, 12), r.Range(10, 80), r.Range(50, 300)}[r.Intn(5)]
	p.Lines = lineSpec{N: n, Seed: r.Seed53(), Shape: r.Intn(4)}
	switch r.Intn(3) {
	case 0:
		p.Multi = -1
	case 1:
		p.Multi = r.Range(1, 4)
	}
	if r.Chance(1, 3) {
		p.Args = append(p.Args, "--cycle")
	}
	if r.Chance(1, 3) {
		p.Args = append(p.Args, "--layout", pick(r, "reverse", "reverse-list"))
	}
	if r.Chance(1, 4) {
		p.Args = append(p.Args, "--query", pick(r, "a", "ab", "b c"))
	}
	for i := r.Range(1, 12); i > 0; i-- {
		var parts []string
		for k := r.Range(1, 4); k > 0; k-- {
			parts = append(parts, c16dVocabulary[r.Intn(len(c16dVocabulary))])
		}
		if r.Chance(1, 6) {
			// the open form `name:argument` takes the rest of the list as it stands, blanks at the end included
			parts = append(parts, pick(r, "change-prompt:q>  ", "change-query:ab ", "change-query:c\t", "change-prompt: "))
		}
		p.Steps = append(p.Steps, strings.Join(parts, "+"))
	}
	if r.Chance(1, 4) {
		p.ClockGrain = []int{8, 64, 100000}[r.Intn(3)]
	}
	return p
}

type c16dSnap struct {
	ok    bool
	state string
	pv    string // last preview command started
	pvCmp bool   // comparable: the window is visible and a line is under the cursor
	cy    int
}

func c16dSnapshot(r *sysRun) c16dSnap {
	st := r.state()
	if st == nil {
		return c16dSnap{}
	}
	t := r.t
	// foreground commands run inside the action list: all of them, in order. Preview commands are started
	// asynchronously (one may or may not be started for a state that is about to change): only the last one,
	// which at rest belongs to the current state, is compared.
	var cmds []string
	lastPV := ""
	for _, p := range r.os.Snapshot() {
		if p.Parent != nil {
			continue
		}
		if strings.HasPrefix(p.Command, "PV") {
			lastPV = p.Command
		} else {
			cmds = append(cmds, p.Command)
		}
	}
	pvCmp := len(st.Matches) > 0 && t.hasPreviewWindow()
	return c16dSnap{ok: true, state: fmt.Sprintf("query=%q cx=%d selected=%v matches=%v sort=%v multi=%d paused=%v prompt=%q header_visible=%v input_hidden=%v preview_window=%v commands_started=%q",
		st.Query, st.Cx, st.Selected, st.Matches, st.Sort, t.multi, st.Paused, t.promptString, t.headerVisible, t.inputless, t.hasPreviewWindow(), cmds), pv: lastPV, pvCmp: pvCmp, cy: st.Cy}
}

// c16dSession runs one session; deliver(i) hands over step i and returns false if it could not.
func c16dSession(c *runCtx, plan *c16dPlan, viaPost bool) (snaps []c16dSnap, answers []string, ok bool) {
	sp := plan.sysPlan
	sp.Args = append([]string{}, plan.sysPlan.Args...)
	keys := make([]string, len(plan.Steps))
	for i := range plan.Steps {
		keys[i] = c09Keys[i%len(c09Keys)]
	}
	var nw *simnet.Net
	if viaPost {
		sp.Args = append([]string{"--listen", "localhost:6266"}, sp.Args...)
	} else {
		for i, s := range plan.Steps {
			if i < len(c09Keys) {
				sp.Args = append(sp.Args, "--bind", keys[i]+":"+s)
			}
		}
	}
	sp.Events = []sysEvent{{Kind: "settle"}}
	for i := range plan.Steps {
		if i >= len(c09Keys) {
			break
		}
		if viaPost {
			sp.Events = append(sp.Events, sysEvent{Kind: "c16dpost", Cols: i})
		} else {
			sp.Events = append(sp.Events, sysEvent{Kind: "keys", Keys: keys[i]})
		}
		sp.Events = append(sp.Events, sysEvent{Kind: "settle"})
	}
	r := newSysRun(c, &sp)
	if viaPost {
		nw = simnet.New()
		defer func() { simnet.Cur = nil }()
		sysEventHandlers["c16dpost"] = func(r *sysRun, ev *sysEvent) {
			body := plan.Steps[ev.Cols]
			conn := nw.Dial()
			if conn == nil {
				answers = append(answers, "no listener")
				return
			}
			req := fmt.Sprintf("POST / HTTP/1.1\r\nHost: localhost\r\nContent-Length: %d\r\n\r\n%s", len(body), body)
			conn.Write([]byte(req))
			conn.SetReadDeadline(time.Now().Add(60 * time.Second))
			var resp []byte
			buf := make([]byte, 4096)
			for {
				n, err := conn.Read(buf)
				resp = append(resp, buf[:n]...)
				if err != nil {
					break
				}
			}
			conn.Close()
			line := string(resp)
			if k := strings.Index(line, "\r\n"); k >= 0 {
				line = line[:k]
			}
			answers = append(answers, line)
		}
		defer delete(sysEventHandlers, "c16dpost")
	}
	r.onSettle = func(r *sysRun, busy bool, final bool) {
		if busy {
			snaps = append(snaps, c16dSnap{})
			return
		}
		snaps = append(snaps, c16dSnapshot(r))
	}
	defer r.cleanup()
	r.start()
	ok = r.drive()
	if ok && !r.done {
		r.finish()
	} else {
		r.sim.Stop()
	}
	commonExitChecks(r)
	return snaps, answers, ok && len(c.viol) == 0
}

func runC16d(c *runCtx) {
	plan := &c16dPlan{}
	if !c.loadPlan(plan) {
		plan = genC16dPlan(c.rng)
	}
	c.plan = plan
	// both sessions run under the same seeded schedule parameters; the schedules themselves differ (one has
	// a listener and HTTP clients), which is the point: the outcome must not depend on the way in
	a, answers, okA := c16dSession(c, plan, true)
	simA := c.sim
	if !okA {
		return
	}
	b, _, okB := c16dSession(c, plan, false)
	_ = simA
	if !okB {
		return
	}
	for i, ans := range answers {
		if !strings.HasPrefix(ans, "HTTP/1.1 200") {
			// an action list the endpoint refuses must also be refused as a binding (option parsing fails:
			// then session B never starts and we do not get here); nothing to compare for this plan
			c.count("probe.post_refused", 1)
			c.violate("c16d.refused", "POST of the action list %q was answered %q although the same list is accepted by --bind", plan.Steps[i], ans)
			return
		}
	}
	n := len(a)
	if len(b) < n {
		n = len(b)
	}
	compared := 0
	for i := 0; i < n; i++ {
		if !a[i].ok || !b[i].ok {
			continue
		}
		compared++
		if a[i].cy != b[i].cy {
			// The list cursor is clamped against every list that arrives. A list of actions that changes what
			// is searched more than once (query edit, change-nth, exclude, sort, search ...) may or may not
			// see the intermediate result, depending on timing - in either session. From there on the two
			// sessions are not comparable any more.
			if i > 0 && i-1 < len(plan.Steps) && c16dListChanges(plan.Steps[i-1]) >= 2 {
				c.count("probe.cursor_timing_dependent", 1)
				break
			}
			c.violate("c16d.differs", "after action list #%d %q the list cursor is at %d in the session fed by POST and at %d in the one fed by --bind (state %s)", i, plan.Steps[maxInt(i-1, 0)%maxInt(len(plan.Steps), 1)], a[i].cy, b[i].cy, a[i].state)
			return
		}
		if a[i].pvCmp && b[i].pvCmp && a[i].pv != b[i].pv {
			// at rest, with the preview window shown and a line under the cursor, the preview command that ran
			// last belongs to that line - whichever way the actions came in
			c.violate("c16d.preview", "after action list #%d the last preview command started is %q in the session fed by POST and %q in the one fed by --bind (list cursor %d, state %s)", i, a[i].pv, b[i].pv, a[i].cy, a[i].state)
			return
		}
		if a[i].state != b[i].state {
			step := "(initial state)"
			if i > 0 && i-1 < len(plan.Steps) {
				step = plan.Steps[i-1]
			}
			c.violate("c16d.differs", "after action list #%d %q the two sessions differ\n  via POST:   %s\n  via --bind: %s", i, step, a[i].state, b[i].state)
			return
		}
	}
	c.count("settle.compared", compared)
	if compared > 1 {
		c.count("nontrivial", 1)
	}
	c.state = fmt.Sprintf("steps=%d compared=%d", len(plan.Steps), compared)
}

// c16dListChanges counts the actions of a list that start a new search.
func c16dListChanges(step string) int {
	n := 0
	for _, a := range strings.Split(step, "+") {
		switch {
		case isEditAction(a), strings.HasPrefix(a, "change-nth"), a == "exclude", a == "toggle-sort", strings.HasPrefix(a, "search("), a == "toggle-search":
			n++
		}
	}
	return n
}

func init() {
	scenarios["c16d"] = scenario{bubble: true, run: runC16d}
}
