//go:build verif

package fzf

// C14: the UI never crashes or hangs and always leaves terminal and system
// clean – hostile items, option sets, geometries, input bytes, child
// processes, signals and exit instants.

import (
	"fmt"
	"strings"

	"github.com/junegunn/fzf/src/zsim"
	"time"
)

func pick(r *zsim.Rng, xs ...string) string { return xs[r.Intn(len(xs))] }

func genC14Args(r *zsim.Rng, p *sysPlan) {
	a := &p.Args
	add := func(xs ...string) { *a = append(*a, xs...) }
	if r.Chance(1, 2) {
		add("--layout", pick(r, "default", "reverse", "reverse-list"))
	}
	if r.Chance(1, 2) {
		add("--border", pick(r, "rounded", "sharp", "bold", "double", "horizontal", "vertical", "top", "bottom", "left", "right", "none", "block", "thinblock"))
	}
	if r.Chance(1, 4) {
		add("--list-border", pick(r, "rounded", "sharp", "none", "top"))
	}
	if r.Chance(1, 4) {
		add("--input-border", pick(r, "rounded", "sharp", "none", "bottom"))
	}
	if r.Chance(1, 4) {
		add("--header-border", pick(r, "rounded", "sharp", "none"))
	}
	if r.Chance(1, 3) {
		add("--margin", pick(r, "0", "1", "5%", "1,2", "1,2,3,4", "40%", "49%"))
	}
	if r.Chance(1, 3) {
		add("--padding", pick(r, "0", "1", "10%", "1,2", "45%"))
	}
	if r.Chance(1, 2) {
		add("--info", pick(r, "default", "right", "hidden", "inline", "inline:>> ", "inline-right"))
	}
	if r.Chance(1, 3) {
		add("--header", pick(r, "HEAD", "two\nlines", "日本語ヘッダ", strings.Repeat("long ", 60)))
	}
	if r.Chance(1, 5) {
		add("--header-first")
	}
	if r.Chance(1, 2) {
		add("--height", pick(r, "1", "2", "3", "5", "10", "40%", "100%", "~5", "~50%", "-2"))
		p.CurRow = r.Intn(p.Rows)
	}
	if r.Chance(1, 6) {
		add("--no-input")
	}
	if r.Chance(1, 5) {
		add("--wrap")
	}
	if r.Chance(1, 6) {
		add("--gap", pick(r, "1", "2"))
		if r.Bool() {
			// the line drawn in the gap: plain, empty, wide, or nothing but colour codes (no width at all)
			add("--gap-line", pick(r, "-", "", "日本", "\x1b[31m", "\x1b[31m-\x1b[m", "ab\tc", "\u200b", "\x1b[31m\u200b", "\u0301", "\x1b[1m\u200b\x1b[m"))
		}
	}
	if r.Chance(1, 6) {
		add("--no-hscroll")
	}
	if r.Chance(1, 6) {
		add("--keep-right")
	}
	if r.Chance(1, 6) {
		add("--hscroll-off", pick(r, "0", "3", "1000"))
	}
	if r.Chance(1, 6) {
		add("--scroll-off", pick(r, "0", "1", "5"))
	}
	if r.Chance(1, 6) {
		add("--tabstop", pick(r, "1", "4", "13"))
	}
	if r.Chance(1, 6) {
		add("--ellipsis", pick(r, "", "..", "…", "日"))
	}
	if r.Chance(1, 6) {
		add("--pointer", pick(r, "", ">", "日", "=>"))
	}
	if r.Chance(1, 6) {
		add("--marker", pick(r, "", "*", "本"))
	}
	if r.Chance(1, 6) {
		add("--scrollbar", pick(r, "", "|", "x"))
	}
	if r.Chance(1, 6) {
		add("--highlight-line")
	}
	if r.Chance(1, 6) {
		add("--track")
	}
	if r.Chance(1, 6) {
		add("--cycle")
	}
	if r.Chance(1, 6) {
		add("--no-unicode")
	}
	if r.Chance(1, 6) {
		add("--ansi")
	}
	if r.Chance(1, 6) {
		add("--no-mouse")
	}
	if r.Chance(1, 6) {
		add("--prompt", pick(r, "", "> ", "日本語> ", strings.Repeat("p", 150)))
	}
	if r.Chance(1, 6) {
		add("--ghost", "type here")
	}
	if r.Chance(1, 5) {
		add("--with-nth", pick(r, "1", "2..", "-1", "{2} {1}"))
	}
	if r.Chance(1, 6) {
		add("--nth", pick(r, "1", "2..", "-1"))
	}
	if r.Chance(2, 5) {
		add("--preview", pick(r, "PV {}", "PV {q}", "PV {n} {+}", "PV {f}"))
		if r.Chance(2, 3) {
			add("--preview-window", pick(r, "right", "left", "up", "down", "right,10%", "up,1", "down,99%", "hidden", "right,border-none", "left,wrap,follow", "up,~3", "right,<50(down)", "0", "right,0", "up,2,border-none,~3,cycle", "right,cycle", "down,3,~2,cycle,follow", "up,1,border-none"))
		}
	}
	if r.Chance(1, 8) {
		add("--select-1")
	}
	if r.Chance(1, 8) {
		add("--exit-0")
	}
	if r.Chance(1, 8) {
		add("--sync")
	}
	if r.Chance(1, 8) {
		add("--print-query")
	}
	if r.Chance(1, 8) {
		add("--expect", "alt-e,f2")
	}
	if r.Chance(1, 8) {
		add("--jump-labels", "ab")
	}
}

var c14Binds = []struct{ key, action string }{
	{"alt-a", "execute(EX 1)"},
	{"alt-b", "execute-silent(EX 2)"},
	{"alt-c", "transform-query(TQ 1)"},
	{"alt-d", "reload(GEN 1)"},
	{"alt-e", "preview(PV {})"},
	{"alt-f", "toggle-preview"},
	{"alt-g", "change-preview-window(up|down,50%|hidden|)"},
	{"alt-h", "toggle-wrap"},
	{"alt-i", "toggle-header"},
	{"alt-j", "jump"},
	{"alt-k", "change-prompt(xyz> )"},
	{"alt-l", "toggle-all"},
	{"alt-m", "become(BE {})"},
	{"alt-n", "transform(TR 1)"},
	{"alt-o", "toggle-input"},
	{"alt-p", "print-query"},
	{"alt-q", "accept-non-empty"},
	{"alt-r", "reload-sync(GEN 2)"},
	{"alt-s", "toggle-sort"},
	{"alt-t", "toggle-track"},
	{"alt-u", "change-header(new header)"},
	{"alt-v", "preview-page-down"},
	{"alt-w", "toggle-multi-line"},
	{"alt-x", "exclude"},
	{"alt-y", "change-nth(2|1|)"},
	{"alt-z", "toggle-hscroll"},
	{"alt-1", "execute(EX 3)+abort"},
	{"alt-2", "transform-prompt(TQ 2)"},
	{"alt-3", "change-list-label(LBL)"},
	{"alt-4", "clear-screen"},
	{"alt-5", "offset-up"},
	{"ctrl-z", "offset-down+page-up"},
	{"f10", "offset-up+page-down"},
	{"alt-6", "offset-middle"},
	{"alt-7", "show-header"},
	{"alt-8", "hide-input"},
	{"alt-9", "bell"},
	{"alt-0", "execute-silent(EX 5 {})"},
	{"ctrl-o", "execute(EX 6 {} {q})"},
	// commands that get the current line / the selection through a temporary file
	{"ctrl-r", "reload(GEN 1 {f})"},
	{"ctrl-s", "reload(GEN 2 {+f})+reload(GEN 1 {f})"},
	{"ctrl-x", "execute-silent(EX 7 {+f})"},
	{"ctrl-v", "transform(TR 2 {f})"},
	// the rest of the action vocabulary (robustness only: no oracle but "no crash, no hang, clean exit")
	{"f1", "change-border-label(BL)+change-header-label(HL)+change-input-label(IL)+change-preview-label(PL)"},
	{"f2", "change-ghost(gh)+change-pointer(>>)"},
	{"f3", "close"},
	{"f4", "disable-search"},
	{"f6", "enable-search"},
	{"f7", "hide-header+hide-preview+hide-input"},
	{"f8", "show-preview+show-input+show-header"},
	{"f9", "jump-accept"},
	{"f11", "next-selected"},
	{"f12", "prev-selected"},
	{"ctrl-b", "preview-bottom+preview-up"},
	{"ctrl-d", "preview-top+preview-down"},
	{"ctrl-e", "preview-half-page-down+preview-half-page-up+preview-page-up"},
	{"ctrl-f", "print(x)+ignore"},
	{"ctrl-g", "rebind(alt-a,alt-b)"},
	{"ctrl-k", "unbind(alt-a,alt-b)"},
	{"ctrl-l", "toggle-bind(alt-c)"},
	{"ctrl-n", "next-history"},
	{"ctrl-p", "prev-history"},
	{"ctrl-t", "toggle-track-current"},
	{"ctrl-u", "track-current"},
	{"ctrl-w", "toggle-preview-wrap+untrack-current"},
	{"ctrl-y", "transform-border-label(TQ 3)+transform-ghost(TQ 3)+transform-header(TQ 4)+transform-header-label(TQ 3)+transform-input-label(TQ 3)+transform-list-label(TQ 3)+transform-preview-label(TQ 3)"},
	{"ctrl-a", "transform-nth(TQ 5)"},
}

func genHostileInput(r *zsim.Rng, cols, rows int) sysEvent {
	ev := sysEvent{Kind: "raw", DelayMs: genDelay(r)}
	var b []byte
	switch r.Intn(10) {
	case 0, 1: // mouse report
		t := []int{0, 1, 2, 3, 32, 35, 64, 65, 4, 8, 16, 0 + 32}[r.Intn(12)]
		x := r.Range(0, cols+3)
		y := r.Range(0, rows+3)
		fin := "M"
		if r.Bool() {
			fin = "m"
		}
		b = []byte(fmt.Sprintf("\x1b[<%d;%d;%d%s", t, x, y, fin))
		if r.Chance(1, 3) {
			b = append(b, []byte(fmt.Sprintf("\x1b[<%d;%d;%dm", t, x, y))...)
			b = append(b, []byte(fmt.Sprintf("\x1b[<%d;%d;%dM\x1b[<%d;%d;%dm", t, x, y, t, x, y))...)
		}
	case 2: // bracketed paste
		n := r.Range(0, 40)
		if r.Chance(1, 10) {
			n = r.Range(1000, 4000)
		}
		body := make([]byte, n)
		for i := range body {
			body[i] = "abc def\t\n\r\x1b日"[r.Intn(12)]
		}
		b = append([]byte("\x1b[200~"), body...)
		if !r.Chance(1, 6) {
			b = append(b, "\x1b[201~"...)
		}
	case 3: // truncated / odd escape sequences
		b = []byte(pick(r, "\x1b[", "\x1b[1;", "\x1b[<0;1", "\x1bO", "\x1b[20", "\x1b[1;10", "\x1b[3;5", "\x1b[200", "\x1b\x1b[", "\x1b[<", "\x1b[1;1", "\x1b[2", "\x1b]", "\x1b[99;99R", "\x1b[;R"))
	case 4: // arbitrary bytes
		n := r.Range(1, 20)
		b = make([]byte, n)
		for i := range b {
			b[i] = byte(r.Intn(256))
			if b[i] == 3 || b[i] == 7 || b[i] == 17 || b[i] == 13 || b[i] == 26 { // keep the session alive a bit longer
				b[i] = 'x'
			}
		}
	case 5:
		b = encodeKeys(pick(r, "up", "down", "left", "right", "home", "end", "pgup", "pgdn", "del", "tab", "btab", "bspace", "f5", "f10", "alt-bspace", "insert", "shift-left", "shift-left", "shift-right"))
	default:
		b = encodeKeys(pick(r, "a", "b", "日", "space", "!", "'", "ctrl-a", "ctrl-e", "ctrl-k", "ctrl-u", "ctrl-w", "ctrl-y", "ctrl-l", "ctrl-r", "ctrl-s", "ctrl-t", "ctrl-z"))
	}
	ev.Raw = b
	if len(b) > 1 && r.Chance(1, 3) {
		ev.SplitAt = r.Range(1, len(b)-1)
		ev.GapMs = []int{0, 1, 4, 20, 99, 101, 300}[r.Intn(7)]
	}
	return ev
}

func genC14Plan(r *zsim.Rng) *sysPlan {
	p := &sysPlan{Match: genMatchCfg(r)}
	switch r.Intn(6) {
	case 0:
		p.Cols, p.Rows = r.Range(1, 6), r.Range(1, 4)
	case 1:
		p.Cols, p.Rows = r.Range(1, 30), r.Range(1, 10)
	default:
		p.Cols, p.Rows = r.Range(10, 200), r.Range(3, 60)
	}
	n := []int{0, 1, r.Range(2, 30), r.Range(20, 300), r.Range(100, 1500)}[r.Intn(5)]
	p.Lines = lineSpec{N: n, Seed: r.Seed53(), Shape: 4 + r.Intn(4)}
	if r.Chance(1, 4) {
		p.Lines.Shape = r.Intn(4)
	}
	p.Read0 = p.Lines.Shape%8 == 7 && r.Bool()
	for i := 0; i < 3; i++ {
		p.Gens = append(p.Gens, lineSpec{N: r.Intn(300), Seed: r.Seed53(), Shape: r.Intn(8)})
	}
	switch r.Intn(4) {
	case 0:
		p.Multi = 0
	case 1:
		p.Multi = -1
	default:
		p.Multi = r.Range(1, 3)
	}
	if r.Chance(1, 5) {
		p.Header = r.Range(1, 4)
	}
	if r.Chance(1, 8) {
		p.Tail = r.Range(1, 120)
	}
	genC14Args(r, p)
	for _, b := range c14Binds {
		if r.Chance(3, 4) {
			p.Args = append(p.Args, "--bind", b.key+":"+b.action)
		}
	}
	if r.Chance(1, 6) {
		p.Args = append(p.Args, "--bind", pick(r, "load:", "result:", "focus:", "start:", "resize:", "zero:", "one:", "change:")+pick(r, "execute-silent(EX 4)", "transform-query(TQ 3)", "change-prompt(p> )", "first", "toggle-all", "reload(GEN 1)"))
	}
	for i := r.Range(1, 5); i > 0; i-- {
		p.Reads = append(p.Reads, []int{-1, 1, r.Range(1, 300), 65536}[r.Intn(4)])
		p.GapsMs = append(p.GapsMs, []int{0, 0, 5, 50, 300}[r.Intn(5)])
	}
	p.HoldOpen = r.Chance(1, 8)
	// child behaviours: everything that runs in the foreground is finite
	for i := r.Range(2, 6); i > 0; i-- {
		ps := procSpec{Text: pick(r, "", "out\n", "line1\nline2\nline3\n", "query text\n", strings.Repeat("x", 300)+"\n", "日本語\tx\n", "\x1b[2Jcleared\n", "partial", "a\tbbbbbbbbbbbbbbbbbbbbbbbbbbbb cc\n")}
		ps.DelaysMs = []int{[]int{0, 0, 10, 120, 600, 1500}[r.Intn(6)]}
		ps.Exit = []int{0, 0, 0, 1, 127}[r.Intn(5)]
		ps.StartErr = r.Chance(1, 12)
		ps.Fork = r.Chance(1, 3)
		if r.Chance(1, 5) {
			// more output than a pipe holds (seq 100000): the command cannot finish unless somebody reads
			ps.Bulk = r.Range(70000, 400000)
		}
		p.Procs = append(p.Procs, ps)
	}
	for i := r.Range(1, 3); i > 0; i-- {
		ps := procSpec{}
		for k := r.Range(1, 4); k > 0; k-- {
			ps.Chunks = append(ps.Chunks, []int{1, 10, 100, 100000}[r.Intn(4)])
			ps.DelaysMs = append(ps.DelaysMs, []int{0, 5, 60, 400}[r.Intn(4)])
		}
		ps.Endless = r.Chance(1, 6)
		ps.Fork = r.Chance(1, 3)
		ps.IgnTerm = r.Chance(1, 4)
		if !ps.Fork && r.Chance(1, 8) {
			// the input command leaves a process behind, outside its process group, that holds the pipe
			ps.DetachMs = []int{60000, 3600000}[r.Intn(2)]
		}
		p.GenProc = append(p.GenProc, ps)
	}
	p.DsrMs = r.Intn(3)
	if r.Chance(1, 8) {
		p.DsrMs = -1
	}
	nev := r.Range(0, 40)
	for i := 0; i < nev; i++ {
		switch k := r.Intn(20); {
		case k < 9:
			p.Events = append(p.Events, genHostileInput(r, p.Cols, p.Rows))
		case k < 14:
			b := c14Binds[r.Intn(len(c14Binds))]
			p.Events = append(p.Events, sysEvent{Kind: "keys", Keys: b.key, DelayMs: genDelay(r)})
		case k < 17:
			ev := sysEvent{Kind: "resize", DelayMs: genDelay(r)}
			switch r.Intn(4) {
			case 0:
				ev.Cols, ev.Rows = r.Range(1, 5), r.Range(1, 3)
			case 1:
				ev.Cols, ev.Rows = 1, 1
			default:
				ev.Cols, ev.Rows = r.Range(1, 220), r.Range(1, 70)
			}
			p.Events = append(p.Events, ev)
		case k < 18:
			p.Events = append(p.Events, sysEvent{Kind: "settle"})
		default:
			p.Events = append(p.Events, sysEvent{Kind: "keys", Keys: pick(r, "a", "b", "bspace", "up", "down", "tab"), DelayMs: genDelay(r)})
		}
	}
	// Targeted mode: events bound to result/load/focus keep arriving (input still streaming) while a long
	// foreground command runs - the queue of pending events is small.
	if r.Chance(1, 6) {
		p.Args = append(p.Args, "--bind", pick(r, "result", "focus", "load")+":"+pick(r, "change-prompt(p> )", "first", "execute-silent(EX 4)"))
		p.Args = append(p.Args, "--bind", "alt-a:execute(EX 1)", "--bind", "alt-b:execute-silent(EX 2)")
		p.Lines.N = r.Range(400, 3000)
		p.Reads = []int{r.Range(20, 200)}
		p.GapsMs = []int{[]int{20, 60, 150}[r.Intn(3)]}
		p.HoldOpen = false
		p.Procs = []procSpec{{DelaysMs: []int{r.Range(1500, 6000)}, Text: "done\n"}}
		pre := []sysEvent{{Kind: "keys", Keys: pick(r, "alt-a", "alt-b"), DelayMs: r.Range(50, 400)}}
		for i := r.Intn(6); i > 0; i-- {
			pre = append(pre, sysEvent{Kind: "keys", Keys: pick(r, "a", "b", "bspace", "down"), DelayMs: r.Range(50, 800)})
		}
		p.Events = append(pre, p.Events...)
	}
	// Targeted mode: a query longer than the prompt area (scrolled horizontally), its end pulled back by a
	// few deletions or cursor moves, then mouse clicks on and around the prompt row: positions computed from
	// the click refer to text that is no longer under the pointer.
	if r.Chance(1, 6) {
		var seq []sysEvent
		long := make([]byte, 0, 400)
		for i := r.Range(p.Cols/2+1, 2*p.Cols+10); i > 0; i-- {
			long = append(long, "abcdef 日"[r.Intn(8)])
		}
		if r.Bool() {
			seq = append(seq, sysEvent{Kind: "raw", Raw: append(append([]byte("\x1b[200~"), long...), "\x1b[201~"...)})
		} else {
			seq = append(seq, sysEvent{Kind: "raw", Raw: long})
		}
		seq = append(seq, sysEvent{Kind: "settle"})
		for i := r.Intn(8); i > 0; i-- {
			seq = append(seq, sysEvent{Kind: "keys", Keys: pick(r, "bspace", "bspace", "ctrl-w", "left", "home", "alt-bspace", "del"), DelayMs: r.Intn(5)})
		}
		// half of the time with plain geometry, where the prompt row is known: the last row, the first under
		// --layout reverse
		promptRow := 0
		c14DropArg(p, "--no-mouse")
		if r.Bool() {
			for _, o := range []string{"--border", "--padding", "--height", "--margin", "--layout", "--input-border", "--header-border", "--list-border"} {
				c14DropOpt(p, o)
			}
			promptRow = p.Rows
			if r.Bool() {
				p.Args = append(p.Args, "--layout", "reverse")
				promptRow = 1
			}
		}
		if promptRow > 0 && r.Bool() {
			// the plain case: a query that does not fit (its end is at the right edge), one to three characters
			// deleted at the end (the query buffer is now exactly as long as the query), a click right of
			// where the text ends
			long = long[:0]
			for i := p.Cols + r.Range(3, 40); i > 0; i-- {
				long = append(long, "abcdef "[r.Intn(7)])
			}
			seq = append(seq[:0], sysEvent{Kind: "raw", Raw: append([]byte{}, long...)})
			if r.Bool() {
				seq = append(seq, sysEvent{Kind: "settle"})
			}
			for i := r.Range(1, 4); i > 0; i-- {
				seq = append(seq, sysEvent{Kind: "keys", Keys: "bspace", DelayMs: r.Intn(3)})
			}
			if r.Bool() {
				seq = append(seq, sysEvent{Kind: "settle"})
			}
			x := maxInt(1, p.Cols-r.Intn(3))
			seq = append(seq, sysEvent{Kind: "raw", Raw: []byte(fmt.Sprintf("\x1b[<0;%d;%dM\x1b[<0;%d;%dm", x, promptRow, x, promptRow)), DelayMs: r.Intn(4)})
		}
		for i := r.Range(1, 5); i > 0; i-- {
			// anywhere, and often in the last columns: right of where a scrolled query ends
			x := []int{p.Cols, p.Cols - 1, p.Cols - 2, p.Cols - 3, r.Range(1, p.Cols+1), r.Range(1, p.Cols+1)}[r.Intn(6)]
			if x < 1 {
				x = 1
			}
			y := []int{1, 2, 3, p.Rows, p.Rows - 1, p.Rows - 2, r.Range(1, p.Rows+1)}[r.Intn(7)]
			if y < 1 {
				y = 1
			}
			if promptRow > 0 && r.Chance(2, 3) {
				y = promptRow
			}
			b := []byte(fmt.Sprintf("\x1b[<0;%d;%dM\x1b[<0;%d;%dm", x, y, x, y))
			if r.Chance(1, 3) {
				b = append(b, b...) // double click
			}
			// often right behind the key before it: the prompt has not been redrawn for the shorter query yet
			seq = append(seq, sysEvent{Kind: "raw", Raw: b, DelayMs: []int{0, 0, 0, 1, r.Intn(30)}[r.Intn(5)]})
			if r.Chance(1, 2) {
				seq = append(seq, sysEvent{Kind: "keys", Keys: pick(r, "bspace", "bspace", "a", "ctrl-u", "end", "ctrl-w")})
			}
		}
		// … and drags that start on the scrollbar column of a list longer than the window and end anywhere,
		// also outside the list (prompt side, borders, margins)
		if r.Bool() {
			if p.Lines.N < 3*p.Rows {
				p.Lines.N = 3*p.Rows + r.Intn(200)
			}
			c14DropArg(p, "--no-scrollbar")
			// plain geometry, so that the last column really is the scrollbar
			for _, o := range []string{"--border", "--padding", "--height", "--preview", "--preview-window", "--margin", "--layout", "--list-border", "--input-border", "--header-border"} {
				c14DropOpt(p, o)
			}
			if r.Bool() {
				// a margin on the prompt side: rows that belong to no window
				if r.Bool() {
					p.Args = append(p.Args, "--margin", "0,0,3,0")
				} else {
					p.Args = append(p.Args, "--layout", "reverse", "--margin", "3,0,0,0")
				}
			}
			for i := r.Range(1, 4); i > 0; i-- {
				x := []int{p.Cols, p.Cols - 1, p.Cols - 2}[r.Intn(3)]
				if x < 1 {
					x = 1
				}
				y := r.Range(1, maxInt(2, p.Rows-3))
				b := []byte(fmt.Sprintf("\x1b[<0;%d;%dM", x, y))
				ry := []int{p.Rows, p.Rows - 1, 1, 2, p.Rows + 1, r.Range(1, p.Rows+1)}[r.Intn(6)]
				if ry < 1 {
					ry = 1
				}
				straight := r.Bool() // the pointer stays in the scrollbar column all the way
				for k := r.Intn(4); k > 0; k-- {
					dx, dy := r.Range(1, p.Cols+1), r.Range(1, p.Rows+2)
					if straight {
						dx = x
						if k == 1 {
							dy = ry
						}
					}
					b = append(b, []byte(fmt.Sprintf("\x1b[<32;%d;%dM", dx, dy))...)
				}
				rx := r.Range(1, p.Cols+1)
				if straight {
					rx = x
				}
				rel := []byte(fmt.Sprintf("\x1b[<0;%d;%dm", rx, ry))
				if r.Bool() {
					// reports arriving one by one
					seq = append(seq, sysEvent{Kind: "raw", Raw: b, DelayMs: r.Intn(30)}, sysEvent{Kind: "raw", Raw: rel, DelayMs: []int{1, 50, 400}[r.Intn(3)]})
				} else {
					seq = append(seq, sysEvent{Kind: "raw", Raw: append(b, rel...), DelayMs: r.Intn(30)})
				}
			}
		}
		at := 0
		if len(p.Events) > 0 && r.Bool() {
			at = r.Intn(len(p.Events) + 1) // else: first thing, while the window still has the size the coordinates were chosen for
		}
		p.Events = append(p.Events[:at:at], append(seq, p.Events[at:]...)...)
		c14DropArg(p, "--no-mouse")
	}
	// Targeted mode: the mouse button goes down inside the preview window, a key closes the window, the mouse
	// is dragged on
	if r.Chance(1, 15) {
		for _, o := range []string{"--border", "--padding", "--height", "--preview", "--preview-window", "--margin", "--no-mouse"} {
			c14DropOpt(p, o)
		}
		c14DropArg(p, "--no-mouse")
		p.Args = append(p.Args, "--preview", "PV {}", "--preview-window", pick(r, "right", "left", "up", "down"))
		long := ""
		for k := 1; k <= 80; k++ {
			long += fmt.Sprintf("line %d\n", k)
		}
		p.Procs = []procSpec{{Text: long}} // more than the window shows: the pane can be scrolled
		x, y := r.Range(1, p.Cols), r.Range(1, p.Rows)
		seq := []sysEvent{{Kind: "settle"}}
		for i := r.Range(1, 4); i > 0; i-- {
			x, y = r.Range(1, p.Cols), r.Range(1, p.Rows)
			if r.Bool() {
				// the last columns: where the scrollbar of a window at the right, top or bottom is
				x = clampInt(p.Cols-r.Intn(3), 1, p.Cols)
			}
			seq = append(seq, sysEvent{Kind: "raw", Raw: []byte(fmt.Sprintf("\x1b[<0;%d;%dM", x, y)), DelayMs: r.Intn(30)})
			seq = append(seq, sysEvent{Kind: "keys", Keys: pick(r, "alt-f", "alt-f", "alt-g", "f7"), DelayMs: r.Intn(10)})
			for k := r.Range(1, 4); k > 0; k-- {
				y = clampInt(y+r.Range(-3, 3), 1, p.Rows)
				seq = append(seq, sysEvent{Kind: "raw", Raw: []byte(fmt.Sprintf("\x1b[<32;%d;%dM", x, y)), DelayMs: r.Intn(10)})
			}
			seq = append(seq, sysEvent{Kind: "raw", Raw: []byte(fmt.Sprintf("\x1b[<0;%d;%dm", x, y))}, sysEvent{Kind: "keys", Keys: "alt-f"})
		}
		p.Events = append(seq, p.Events...)
	}
	// Targeted mode: a preview window of one to three rows (one row of content), more output than fits, and
	// the mouse on the scrollbar column: the bar is as long as the window
	if r.Chance(1, 15) {
		for _, o := range []string{"--border", "--padding", "--height", "--preview", "--preview-window", "--margin", "--no-mouse"} {
			c14DropOpt(p, o)
		}
		c14DropArg(p, "--no-mouse")
		c14DropArg(p, "--no-scrollbar")
		pw := pick(r, "up,1,border-none", "up,3", "down,1,border-none", "up,2,border-none,~1", "right,3,border-none")
		p.Args = append(p.Args, "--preview", "PV {}", "--preview-window", pw)
		long := ""
		for k := 1; k <= 50; k++ {
			long += fmt.Sprintf("line %d\n", k)
		}
		p.Procs = []procSpec{{Text: long}}
		seq := []sysEvent{{Kind: "settle"}}
		for i := r.Range(1, 4); i > 0; i-- {
			x := []int{p.Cols, p.Cols - 1, r.Range(1, p.Cols+1)}[r.Intn(3)]
			y := []int{1, 2, 3, p.Rows, p.Rows - 1, r.Range(1, p.Rows+1)}[r.Intn(6)]
			x, y = clampInt(x, 1, p.Cols), clampInt(y, 1, p.Rows)
			seq = append(seq, sysEvent{Kind: "raw", Raw: []byte(fmt.Sprintf("\x1b[<0;%d;%dM\x1b[<0;%d;%dm", x, y, x, y)), DelayMs: r.Intn(30)}, sysEvent{Kind: "settle"})
		}
		p.Events = append(seq, p.Events...)
	}
	// Targeted mode: commands whose template needs the current line, run when there is none (empty input or
	// a query nothing matches), then a signal from outside: whatever state the skipped command left behind
	// must not make fzf deaf.
	sigEnd := false
	if r.Chance(1, 8) {
		if r.Bool() {
			p.Lines.N = 0
		} else {
			p.Events = append(p.Events, sysEvent{Kind: "raw", Raw: []byte("zqzqzq")})
		}
		p.Args = append(p.Args, "--bind", "alt-0:execute-silent(EX 5 {})", "--bind", "ctrl-o:execute(EX 6 {} {q})")
		p.Events = append(p.Events, sysEvent{Kind: "settle"})
		for i := r.Range(1, 3); i > 0; i-- {
			p.Events = append(p.Events, sysEvent{Kind: "keys", Keys: pick(r, "alt-0", "ctrl-o"), DelayMs: r.Intn(50)})
		}
		p.Events = append(p.Events, sysEvent{Kind: "settle"})
		sigEnd = true
	}
	// how the session ends
	end := sysEvent{Kind: "keys", DelayMs: genDelay(r)}
	switch r.Intn(9) {
	case 0:
		end.Keys = "enter"
	case 1:
		end.Keys = "esc"
	case 2:
		end.Keys = "ctrl-c"
	case 3:
		end = sysEvent{Kind: "sig", Sig: "TERM", DelayMs: genDelay(r)}
	case 4:
		end = sysEvent{Kind: "sig", Sig: "INT", DelayMs: genDelay(r)}
	case 5:
		end = sysEvent{Kind: "hup", DelayMs: genDelay(r)}
		if r.Bool() {
			end = sysEvent{Kind: "sig", Sig: "HUP", DelayMs: genDelay(r)}
		}
	case 6:
		end.Keys = "alt-m" // become
	case 7:
		end.Keys = "alt-p" // print-query
	default:
		end.Kind = "settle" // the harness ends it with ctrl-c
	}
	if sigEnd {
		end = sysEvent{Kind: "sig", Sig: pick(r, "INT", "INT", "TERM"), DelayMs: 2500 + genDelay(r)}
	}
	p.StdoutClosed = r.Chance(1, 10)
	p.TmpGone = r.Chance(1, 12)
	p.ExecFails = r.Chance(1, 4)
	if r.Chance(1, 15) {
		// Targeted mode: a command started in the foreground runs for most of a minute; SIGTERM / SIGHUP
		// arrives in the middle of it
		// half of the time the shell runs the command as a child of its own (a pipeline, `sleep 40; echo x`)
		p.Procs = []procSpec{{FinalMs: r.Range(30000, 50000), Text: "out\n", Fork: r.Bool()}}
		p.Events = append(p.Events, sysEvent{Kind: "settle"}, sysEvent{Kind: "keys", Keys: pick(r, "alt-a", "alt-b", "alt-b")})
		end = sysEvent{Kind: "sig", Sig: pick(r, "TERM", "HUP"), DelayMs: r.Range(300, 3000)}
	}
	p.Events = append(p.Events, end)
	return p
}

// c14DropArg removes a flag from the argument list (targeted modes that need the opposite).
func c14DropArg(p *sysPlan, flag string) {
	out := p.Args[:0:0]
	for _, a := range p.Args {
		if a != flag {
			out = append(out, a)
		}
	}
	p.Args = out
}

// c14DropOpt removes an option together with its value.
func c14DropOpt(p *sysPlan, name string) {
	out := p.Args[:0:0]
	for i := 0; i < len(p.Args); i++ {
		if p.Args[i] == name {
			if i+1 < len(p.Args) && !strings.HasPrefix(p.Args[i+1], "--") {
				i++
			}
			continue
		}
		out = append(out, p.Args[i])
	}
	p.Args = out
}

func runC14(c *runCtx) {
	plan := &sysPlan{}
	if !c.loadPlan(plan) {
		plan = genC14Plan(c.rng)
	}
	c.plan = plan
	r := newSysRun(c, plan)
	mouseAtFirstRest := -1
	r.onSettle = func(r *sysRun, busy bool, final bool) {
		if busy {
			c.count("settle.busy", 1)
			return
		}
		c.count("settle.checked", 1)
		// The terminal modes fzf works with are those it asked for at start-up: at rest, with the interface
		// up and no command in the foreground, bracketed paste is on (fzf turns it on unconditionally) and
		// mouse reporting is what it was at the first rest - or the terminal no longer sends what the user
		// does. Coming back from ctrl-z fzf gives up the mouse on purpose (not full screen).
		if r.t == nil || r.done || r.became != "" || !r.tty.Raw || r.t.executing.Get() {
			return
		}
		if off := r.t.previewer.offset; off < 0 || off > 1<<40 {
			c.violate("sys.preview_offset", "at rest the scroll offset of the preview window is %d (%d lines of output)", off, len(r.t.previewer.lines))
		}
		paste, mouseOn := r.tty.Modes()
		mouse := 0
		if mouseOn {
			mouse = 1
		}
		if !paste {
			c.violate("sys.modes_lost", "at rest, interface up, no command running: bracketed paste mode is off (fzf turned it on at start-up); SIGTSTP seen: %d", r.os.Stops)
		}
		if mouseAtFirstRest < 0 {
			mouseAtFirstRest = mouse
		} else if mouse != mouseAtFirstRest && r.os.Stops == 0 {
			c.violate("sys.modes_lost", "at rest, interface up, no command running: mouse reporting is %d, it was %d at the first rest (no ctrl-z in between): the terminal no longer reports clicks and wheel", mouse, mouseAtFirstRest)
		}
	}
	defer r.cleanup()
	r.tolerateBadOpts = true
	if !r.start() {
		c.count("options_rejected_cleanly", 1)
		return
	}
	ok := r.drive()
	if ok && !r.done {
		r.finish()
	} else {
		r.sim.Stop()
	}
	commonExitChecks(r)
	if r.done {
		c.count("exit.code_"+fmt.Sprint(r.code), 1)
		c.count("nontrivial", 1)
	}
	if r.became != "" {
		c.count("probe.become", 1)
		for _, a := range r.tty.Audit() {
			c.violate("exit.unclean", "at the instant fzf replaced itself with %q: %s", r.became, a)
		}
		for _, a := range r.becameLeft {
			c.violate("exit.unclean", "at the instant fzf replaced itself with %q: child process %s still running and never killed", r.became, a)
		}
	}
	if r.sigTermAt > 0 && len(c.viol) == 0 {
		c.count("probe.sigterm_during_command", 1)
		if !r.done || r.doneAt-r.sigTermAt > 10*time.Second {
			took := "never"
			if r.done {
				took = (r.doneAt - r.sigTermAt).String()
			}
			c.violate("sys.signal_ignored", "SIGTERM/SIGHUP arrived while the command %q was running in the foreground; fzf ended %s later (it is to stop the command and leave, not to wait for it)", r.sigTermCmd, took)
		}
	}
	for _, a := range r.pipeLeft {
		c.violate("exit.unclean", "fzf's standard output is closed, its first write ends it (SIGPIPE): child process %s still running and never killed", a)
	}
	for _, a := range r.sigLeft {
		c.violate("exit.unclean", "fzf was ended by SIGHUP: child process %s still running and never killed", a)
	}
	if r.tty.Overflow > 0 {
		c.count("probe.write_past_right_margin", 1)
	}
	if r.tty.Malformed > 0 {
		c.count("probe.ill_formed_control_sequence_written", 1)
	}
	c.state = fmt.Sprintf("code=%d ev=%d out=%d", r.code, len(plan.Events), r.tty.BytesOut)
}

func init() {
	scenarios["c14"] = scenario{bubble: true, run: runC14}
}
