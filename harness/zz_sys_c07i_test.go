//go:build verif

package fzf

// Interactive half of C07 (framing, --print-query / --expect order, --accept-nth,
// --select-1 / --exit-0, exit status) and whole-session half of C18 (--history).

import (
	"fmt"
	"os"
	"path/filepath"
	"sort"
	"strconv"
	"strings"

	"github.com/junegunn/fzf/src/zsim"
)

// ---------------------------------------------------------------------------
// c07i

type c07iPlan struct {
	sysPlan
	PrintQuery bool   `json:"print_query"`
	Expect     bool   `json:"expect"`
	Print0     bool   `json:"print0"`
	AcceptNth  string `json:"accept_nth"`
	Delim      string `json:"delim"`
	Select1    bool   `json:"select1"`
	Exit0      bool   `json:"exit0"`
	Query      string `json:"query"`
	Fields     uint64 `json:"fields"` // seed of the field-structured lines
	NLines     int    `json:"nlines"`
	WithNth    string `json:"with_nth"` // what is displayed and searched; what is printed stays the record
	Ansi       int    `json:"ansi"`     // every Ansi-th record carries SGR sequences and --ansi is given
	NoColor    bool   `json:"no_color"` // --no-color: --ansi still means the sequences are not part of the record
	Prints     bool   `json:"prints"`   // alt-r: print(queued), alt-y: print()
	// OneK >= 0: `--bind one:accept` and alt-k: change-query(#OneK) - the cursor is moved up first, then the query
	// leaves exactly that record: fzf accepts it on its own (End is not pressed)
	OneK int `json:"one_k"`
	// ResultBind: an action is bound to the result event (posted for every list that arrives - also before
	// the interface is up under --select-1 / --exit-0)
	ResultBind bool `json:"result_bind,omitempty"`
	// LoadAccept: `--multi --bind load:select-all+accept` with a query; the input arrives in pieces while searches
	// are running. `load` is documented to fire when the input is complete and the list for it is there: every
	// matching record of the whole input is printed
	LoadAccept bool `json:"load_accept,omitempty"`
	// LongRunes: this many long records outside ASCII are added; with Read0 the records are NUL-terminated
	LongRunes int    `json:"long_runes,omitempty"`
	End       string `json:"end"` // enter | esc | alt-e (expect key) | f2 (expect key) | alt-p (print-query) | alt-o (accept-or-print-query) | alt-n (accept-non-empty)
}

func fieldLines(seed uint64, n int, delim string) []string {
	out := make([]string, n)
	for i := range out {
		r := zsim.NewRng(zsim.Mix(seed, uint64(i)))
		nf := 1 + r.Intn(4)
		var parts []string
		for k := 0; k < nf; k++ {
			w := ""
			for j := 1 + r.Intn(4); j > 0; j-- {
				w += string(lineAlphabet[r.Intn(len(lineAlphabet))])
			}
			// fields that end in (part of) the delimiter, and empty fields
			if delim != "" && r.Chance(1, 5) {
				w += delim[len(delim)-1:]
			}
			if delim != "" && r.Chance(1, 8) {
				w = ""
			}
			parts = append(parts, w)
		}
		sep := " "
		if delim != "" {
			sep = delim
		}
		out[i] = strings.Join(parts, sep) + sep + "#" + strconv.Itoa(i)
		if delim == "" && r.Chance(1, 4) {
			out[i] = strings.Replace(out[i], " ", "  ", 1) // consecutive blanks are one AWK delimiter
		}
	}
	return out
}

// acceptNthModel: the documented field semantics for the generated cases.
// AWK-style (default): fields are runs of non-blanks, a field carries its trailing blanks, the result loses
// trailing blanks. String delimiter: a field carries its trailing delimiter, the result loses ONE trailing delimiter.
func acceptNthModel(line, expr, delim string) string {
	var fields []string
	if delim == "" {
		i := 0
		for i < len(line) {
			j := i
			for j < len(line) && line[j] != ' ' {
				j++
			}
			for j < len(line) && line[j] == ' ' {
				j++
			}
			fields = append(fields, line[i:j])
			i = j
		}
	} else {
		rest := line
		for {
			k := strings.Index(rest, delim)
			if k < 0 {
				fields = append(fields, rest)
				break
			}
			fields = append(fields, rest[:k+len(delim)])
			rest = rest[k+len(delim):]
			if rest == "" {
				break
			}
		}
	}
	n := len(fields)
	pick := func(a, b int) string { // 1-based inclusive, already normalised
		if a < 1 {
			a = 1
		}
		if b > n {
			b = n
		}
		if a > b {
			return ""
		}
		return strings.Join(fields[a-1:b], "")
	}
	// a field index expression: N | -N | A..B | A.. | ..B | .. ; several, separated by commas, are concatenated.
	// Negative numbers count from the last field; a range whose ends cross designates nothing.
	var res string
	for _, part := range strings.Split(expr, ",") {
		a, b := 1, n
		num := func(s string, dflt int) (int, bool) {
			if s == "" {
				return dflt, true
			}
			v, err := strconv.Atoi(s)
			if err != nil || v == 0 {
				return 0, false
			}
			if v < 0 {
				v = n + v + 1
				if v < 1 {
					// before the first field: as a single index nothing, as a range end the line's edge
					v = 0
				}
			}
			return v, true
		}
		if k := strings.Index(part, ".."); k >= 0 {
			var ok1, ok2 bool
			a, ok1 = num(part[:k], 1)
			b, ok2 = num(part[k+2:], n)
			if !ok1 || !ok2 {
				return line
			}
			if b == 0 {
				continue // ends before the first field
			}
		} else {
			v, ok := num(part, 0)
			if !ok {
				return line
			}
			if v == 0 {
				continue
			}
			a, b = v, v
		}
		res += pick(a, b)
	}
	if delim == "" {
		return strings.TrimRight(res, " ")
	}
	return strings.TrimSuffix(res, delim)
}

func genC07iPlan(r *zsim.Rng) *c07iPlan {
	p := &c07iPlan{}
	p.Match = matchCfg{Fuzzy: true, Extended: true, Sort: true, Normal: true}
	p.Cols, p.Rows = r.Range(40, 100), r.Range(10, 30)
	p.NLines = []int{0, 1, 2, r.Range(3, 12), r.Range(10, 60)}[r.Intn(5)]
	p.Fields = r.Seed53()
	p.Delim = []string{"", "", ",", "->"}[r.Intn(4)]
	p.PrintQuery = r.Chance(1, 3)
	p.Expect = r.Chance(1, 3)
	p.Print0 = r.Chance(1, 5)
	if r.Chance(1, 2) {
		p.AcceptNth = []string{"1", "2", "-1", "1..2", "2..", "-2", "2..-2", "..-2", "-2..", "2..3", "3..", "..", "1,-1", "2..3,1", "3..2", "-3..-2"}[r.Intn(16)]
	}
	p.Select1 = r.Chance(1, 6)
	p.Exit0 = r.Chance(1, 6)
	if r.Chance(1, 4) {
		p.WithNth = []string{"1", "2..", "-1", "1..", "..2"}[r.Intn(5)]
	}
	if r.Chance(1, 6) {
		p.Ansi = r.Range(1, 3)
		p.NoColor = r.Chance(1, 2)
	}
	if r.Chance(1, 3) {
		p.Query = string(lineAlphabet[r.Intn(len(lineAlphabet))])
		if r.Chance(1, 3) {
			p.Query = "#" + strconv.Itoa(r.Intn(p.NLines+1))
		}
	}
	if (p.Select1 || p.Exit0) && r.Chance(1, 2) {
		// the start-up short cut must wait for the whole input: many records arriving in pieces, the
		// deciding record near the end
		p.NLines = r.Range(60, 450)
		for i := r.Range(2, 8); i > 0; i-- {
			p.Reads = append(p.Reads, []int{1, r.Range(1, 40), r.Range(10, 400), r.Range(100, 3000)}[r.Intn(4)])
			p.GapsMs = append(p.GapsMs, []int{0, 1, 5, 20, 60, 150}[r.Intn(6)])
		}
		p.Query = "#" + strconv.Itoa(p.NLines-1-r.Intn(3))
		if r.Chance(1, 4) {
			p.Query = "#" + strconv.Itoa(p.NLines+5) // matches nothing
		}
		if p.ResultBind = r.Chance(1, 2); p.ResultBind && r.Bool() {
			// a slow producer: a dozen lists arrive, one after the other, before the decision can be made
			p.NLines = r.Range(8, 30)
			p.Query = "#" + strconv.Itoa(p.NLines-1)
			p.Reads, p.GapsMs = nil, nil
			for i := 0; i < 40; i++ {
				p.Reads = append(p.Reads, r.Range(8, 40))
				p.GapsMs = append(p.GapsMs, []int{150, 300, 400}[r.Intn(3)])
			}
		}
		p.NumCPU = r.Intn(5)
	}
	if r.Chance(1, 2) {
		p.Multi = -1
	}
	if r.Chance(1, 5) {
		p.LongRunes = r.Range(1, 4)
		p.Read0 = r.Chance(1, 2)
		if p.Delim == "" {
			p.AcceptNth = "" // consecutive blanks inside the long records are not what the field model is about
		}
	}
	p.End = []string{"enter", "enter", "esc", "alt-e", "f2", "alt-p", "alt-o", "alt-n", "ctrl-c", "f3"}[r.Intn(10)]
	p.OneK = -1
	if !p.Select1 && !p.Exit0 && r.Chance(1, 8) {
		p.LoadAccept = true
		p.Multi = -1
		p.LongRunes, p.Read0, p.WithNth, p.AcceptNth, p.Ansi = 0, false, "", "", 0
		p.NLines = r.Range(100, 500)
		p.Reads, p.GapsMs = nil, nil
		for i := r.Range(2, 8); i > 0; i-- {
			p.Reads = append(p.Reads, []int{1, r.Range(1, 40), r.Range(10, 400), r.Range(100, 3000)}[r.Intn(4)])
			p.GapsMs = append(p.GapsMs, []int{0, 1, 5, 20, 60, 150}[r.Intn(6)])
		}
		p.Query = string(lineAlphabet[r.Intn(len(lineAlphabet))])
		if r.Chance(1, 3) {
			p.Query = "#" + strconv.Itoa(r.Intn(10))
		}
		p.NumCPU = r.Intn(5)
		p.End = "load"
		p.Events = append(p.Events, sysEvent{Kind: "settle"})
		return p
	}
	if !p.Select1 && !p.Exit0 && p.Query == "" && r.Chance(1, 6) {
		p.NLines = r.Range(2, 10)
		p.OneK = r.Intn(p.NLines)
		p.WithNth = ""
		p.LongRunes, p.Read0 = 0, false // "#K" must designate one record
		p.End = "one"
		p.Events = append(p.Events, sysEvent{Kind: "settle"})
		for i := r.Range(0, 9); i > 0; i-- {
			p.Events = append(p.Events, sysEvent{Kind: "keys", Keys: pick(r, "alt-u", "alt-u", "alt-u", "alt-d", "alt-t")})
			if r.Chance(1, 2) {
				p.Events = append(p.Events, sysEvent{Kind: "settle"})
			}
		}
		p.Events = append(p.Events, sysEvent{Kind: "keys", Keys: "alt-k", DelayMs: r.Intn(20)}, sysEvent{Kind: "settle"})
		return p
	}
	p.Events = append(p.Events, sysEvent{Kind: "settle"})
	keys := []string{"alt-u", "alt-u", "alt-d", "alt-t", "alt-t", "alt-t", "alt-z"}
	if p.Prints = r.Chance(1, 3); p.Prints {
		keys = append(keys, "alt-r", "alt-r", "alt-y")
	}
	for i := r.Intn(8); i > 0; i-- {
		p.Events = append(p.Events, sysEvent{Kind: "keys", Keys: keys[r.Intn(len(keys))]}, sysEvent{Kind: "settle"})
	}
	p.Events = append(p.Events, sysEvent{Kind: "keys", Keys: p.End})
	if r.Chance(1, 4) {
		p.ClockGrain = []int{8, 64, 100000}[r.Intn(3)] // a coarse clock: selections of one action carry the same instant
	}
	return p
}

func runC07i(c *runCtx) {
	plan := &c07iPlan{}
	if !c.loadPlan(plan) {
		plan = genC07iPlan(c.rng)
	}
	c.plan = plan
	sp := &plan.sysPlan
	// every option is derived from the plan's own fields (a recorded plan may carry the options of the run
	// that recorded it: they are dropped, never added to)
	sp.Args = nil
	base := 0
	defer func() { sp.Args = nil }()
	add := func(a ...string) { sp.Args = append(sp.Args, a...) }
	add("--bind", "alt-u:up", "--bind", "alt-d:down", "--bind", "alt-t:toggle-in", "--bind", "alt-p:print-query", "--bind", "alt-z:change-query(zqzq)",
		"--bind", "alt-o:accept-or-print-query", "--bind", "alt-n:accept-non-empty",
		// what follows accept in the same list is not run: the session has ended
		"--bind", "f3:accept+clear-query+clear-selection+last")
	if plan.Prints {
		add("--bind", "alt-r:print(queued)", "--bind", "alt-y:print()")
	}
	if plan.LoadAccept {
		add("--bind", "load:select-all+accept")
	}
	if plan.ResultBind {
		add("--bind", "result:ignore")
	}
	if plan.OneK >= 0 && plan.End == "one" {
		add("--bind", "one:accept", "--bind", "alt-k:change-query(#"+strconv.Itoa(plan.OneK)+")")
	}
	if plan.PrintQuery {
		add("--print-query")
	}
	if plan.Expect {
		add("--expect", "alt-e,f2")
	}
	if plan.Print0 {
		add("--print0")
	}
	if plan.Delim != "" {
		add("--delimiter", plan.Delim)
	}
	if plan.AcceptNth != "" {
		add("--accept-nth", plan.AcceptNth)
	}
	if plan.WithNth != "" {
		add("--with-nth", plan.WithNth)
	}
	if plan.Ansi > 0 {
		add("--ansi")
		if plan.NoColor {
			add("--no-color")
		}
	}
	if plan.Select1 {
		add("--select-1")
	}
	if plan.Exit0 {
		add("--exit-0")
	}
	if plan.Query != "" {
		add("--query", plan.Query)
	}
	lines := fieldLines(plan.Fields, clampInt(plan.NLines, 0, 500), plan.Delim)
	if plan.LongRunes > 0 {
		// records outside ASCII, wider than the window (drawn cut off, printed whole)
		lr := zsim.NewRng(zsim.Mix(plan.Fields, 77))
		for k := clampInt(plan.LongRunes, 1, 6); k > 0; k-- {
			var b strings.Builder
			for w := lr.Range(20, 60); w > 0; w-- {
				for l := lr.Range(1, 6); l > 0; l-- {
					b.WriteString(string([]rune("abcdefàéîöüß日本")[lr.Intn(14)]))
				}
				b.WriteByte(' ')
			}
			lines = append(lines, b.String()+"#"+strconv.Itoa(len(lines)))
		}
	}
	fed := lines // what goes into stdin
	if plan.Ansi > 0 {
		// with --ansi the sequences are removed from the record: what is printed is `lines`, what is fed is decorated
		fed = append([]string(nil), lines...)
		for i := range fed {
			if i%plan.Ansi == 0 {
				fed[i] = decorate(fed[i])
			}
		}
	}
	sp.Lines = lineSpec{N: 0, Extra: fed}
	// display text = what the list shows and the query is matched against
	display := func(r *sysRun) []frozenItem {
		items := make([]frozenItem, len(lines))
		var tr func([]Token, int32) string
		if r.opts != nil && r.opts.WithNth != nil {
			tr = r.opts.WithNth(r.opts.Delimiter)
		}
		for i, l := range lines {
			d := l
			if tr != nil {
				d = strings.TrimRight(tr(Tokenize(l, r.opts.Delimiter), int32(i)), " \t\n\r\v\f")
			}
			items[i] = frozenItem{Index: int32(i), Text: d}
		}
		return items
	}
	r := newSysRun(c, sp)
	m := &uiModel{}
	if sp.Multi < 0 {
		m.multi = int(maxMulti)
	}
	applied := 0
	var applyEvents func(r *sysRun, upTo int)
	var printQueue []string // print(...): strings to print on normal exit, after the query / key lines
	curQuery := plan.Query
	r.onSettle = func(r *sysRun, busy bool, final bool) {
		if st := r.state(); st != nil && !busy && !st.Reading && r.settleN > 0 {
			// drive the cursor/selection model (same as C09's) for the delivered keys
			if m.list == nil {
				items := display(r)
				mc := sp.Match
				m.list = indicesOf(freshFilter(items, plan.Query, mc))
				if m.list == nil {
					m.list = []int32{}
				}
			}
			applyEvents(r, r.settleN)
		}
	}
	// keys delivered behind the last settle that was serviced (a minimised plan may lack settles): applied
	// in one go before the output is compared; a list change among them makes the outcome a matter of timing
	inexactTail := false
	applyEvents = func(r *sysRun, upTo int) {
		{
			n := 0
			for i := range sp.Events {
				ev := sp.Events[i]
				if ev.Kind == "settle" {
					n++
					if n >= upTo {
						break
					}
					continue
				}
				if upTo > len(sp.Events) && i >= applied && ev.Keys == "alt-z" {
					inexactTail = true
				}
				if i < applied {
					continue
				}
				applied = i + 1
				switch ev.Keys {
				case "alt-u":
					m.apply("up")
				case "alt-d":
					m.apply("down")
				case "alt-t":
					m.apply("toggle-in")
				case "alt-r":
					if plan.Prints {
						printQueue = append(printQueue, "queued")
					}
				case "alt-y":
					if plan.Prints {
						printQueue = append(printQueue, "")
					}
				case "alt-z":
					// a query nothing matches (selections stay): what is listed changes, what is selected does not
					curQuery = "zqzq"
					mc := sp.Match
					m.list = indicesOf(freshFilter(display(r), curQuery, mc))
					if m.list == nil {
						m.list = []int32{}
					}
					m.setCy(m.cy)
				}
			}
		}
	}
	defer r.cleanup()
	r.start()
	ok := r.drive()
	if ok && !r.done {
		r.finish()
	} else {
		r.sim.Stop()
	}
	commonExitChecks(r)
	if len(c.viol) > 0 {
		return
	}
	// ---- model of what must have been printed
	items := display(r)
	mc := sp.Match
	results := indicesOf(freshFilter(items, plan.Query, mc))
	if !r.done {
		// a session that must end on its own (start-up short cut, load:...+accept) and did not, although the
		// whole input had been delivered and the harness kept waiting and finally pressed ctrl-c for minutes
		if r.opts != nil && (plan.Select1 && len(results) == 1 || plan.Exit0 && len(results) == 0 || plan.LoadAccept) && r.inputAtRest() {
			c.violate("c07i.no_exit", "the session did not end on its own (select-1=%v exit-0=%v load:accept=%v, %d records, %d matching, result event bound=%v)", plan.Select1, plan.Exit0, plan.LoadAccept, len(lines), len(results), plan.ResultBind)
		}
		return
	}
	out := func(idx int32) string {
		if plan.AcceptNth != "" {
			return acceptNthModel(lines[idx], plan.AcceptNth, plan.Delim)
		}
		return lines[idx]
	}
	var want []string
	wantCode := -1
	if plan.LoadAccept && sp.Multi != 0 {
		// the records matching the query in the whole input, each once (their order is that of the list at the
		// time, which C04 decides)
		header := []string{}
		if plan.PrintQuery {
			header = append(header, plan.Query)
		}
		if plan.Expect {
			header = append(header, "")
		}
		var body []string
		for _, idx := range results {
			body = append(body, out(idx))
		}
		got, terminated := splitOut(r.stdout, plan.Print0)
		cfg := fmt.Sprintf("load:select-all+accept query=%q records=%d matching=%d reads=%v", plan.Query, len(lines), len(results), plan.Reads)
		if !terminated && len(got) > 0 {
			c.violate("c07i.framing", "last printed record is not terminated (%s)", cfg)
		}
		if len(got) >= len(header) {
			gotBody := append([]string{}, got[len(header):]...)
			sort.Strings(gotBody)
			sort.Strings(body)
			compareOut(c, "c07i", append(append([]string{}, got[:len(header)]...), gotBody...), append(header, body...), cfg)
		} else {
			compareOut(c, "c07i", got, append(header, body...), cfg)
		}
		wc := ExitOk
		if len(body) == 0 {
			wc = ExitNoMatch
		}
		if r.code != wc {
			c.violate("c07i.exit_code", "exit status %d, expected %d (%s)", r.code, wc, cfg)
		}
		c.count("probe.load_accept", 1)
		if len(body) > 0 {
			c.count("nontrivial", 1)
		}
		return
	}
	shortcut := plan.Select1 && len(results) == 1 || plan.Exit0 && len(results) == 0
	switch {
	case shortcut:
		// --select-1 / --exit-0: no interface at all
		if plan.PrintQuery {
			want = append(want, plan.Query)
		}
		if plan.Expect {
			want = append(want, "")
		}
		for _, idx := range results {
			want = append(want, out(idx))
		}
		wantCode = ExitOk
		if len(results) == 0 {
			wantCode = ExitNoMatch
		}
		c.count("probe.startup_shortcut", 1)
	case m.list == nil:
		return // the session never settled in the interface: nothing to compare
	default:
		applyEvents(r, len(sp.Events)+2)
		if inexactTail {
			return
		}
		sel := func() []string {
			var o []string
			if len(m.sel) > 0 {
				for _, idx := range m.sel {
					o = append(o, out(idx))
				}
			} else if idx, ok := m.current(); ok {
				o = append(o, out(idx))
			}
			return o
		}
		header := func(key string) {
			if plan.PrintQuery {
				want = append(want, curQuery)
			}
			if plan.Expect {
				want = append(want, key)
			}
			want = append(want, printQueue...)
		}
		end := plan.End
		if end == "alt-e" && !plan.Expect || end == "f2" && !plan.Expect {
			end = "unbound"
		}
		if end == "one" {
			pressed := false
			for _, ev := range sp.Events {
				pressed = pressed || ev.Kind == "keys" && ev.Keys == "alt-k"
			}
			if !pressed || plan.OneK < 0 || plan.OneK >= len(lines) || len(lines) > 10 {
				end = "unbound"
			}
		}
		switch end {
		case "one":
			// the query leaves exactly record OneK; `one:accept` prints the selection if there is one, else that record
			curQuery = "#" + strconv.Itoa(plan.OneK)
			header("")
			if len(m.sel) > 0 {
				want = append(want, sel()...)
			} else {
				want = append(want, out(int32(plan.OneK)))
			}
			wantCode = ExitOk
			c.count("probe.one_accept", 1)
		case "enter", "alt-e", "f2", "f3":
			key := ""
			if end == "alt-e" || end == "f2" {
				key = end
			}
			header(key)
			s := sel()
			want = append(want, s...)
			wantCode = ExitOk
			if len(s) == 0 {
				wantCode = ExitNoMatch
			}
		case "alt-p":
			want = append(want, curQuery)
			wantCode = ExitOk
		case "alt-o":
			if len(m.sel) > 0 || len(m.list) > 0 {
				header("")
				want = append(want, sel()...)
			} else {
				want = append(want, curQuery)
			}
			wantCode = ExitOk
		case "alt-n":
			if len(m.sel) > 0 || len(m.list) > 0 || len(lines) == 0 {
				header("")
				s := sel()
				want = append(want, s...)
				wantCode = ExitOk
				if len(s) == 0 {
					wantCode = ExitNoMatch
				}
			} else {
				wantCode = ExitInterrupt // nothing accepted; the harness ended the session with ctrl-c
			}
		default:
			wantCode = ExitInterrupt
		}
	}
	got, terminated := splitOut(r.stdout, plan.Print0)
	cfg := fmt.Sprintf("args=%v end=%s results=%d sel=%v cy=%d", sp.Args[base:], plan.End, len(results), m.sel, m.cy)
	if !terminated {
		c.violate("c07i.framing", "last printed record is not terminated (%s)", cfg)
	}
	compareOut(c, "c07i", got, want, cfg)
	if r.code != wantCode {
		c.violate("c07i.exit_code", "exit status %d, expected %d (%s)", r.code, wantCode, cfg)
	}
	if len(want) > 0 {
		c.count("nontrivial", 1)
	}
	c.state = fmt.Sprintf("out=%d code=%d", len(got), r.code)
}

// ---------------------------------------------------------------------------
// c18s: whole sessions with --history

type c18Session struct {
	Steps []string `json:"steps"` // keys: single letters, ctrl-p, ctrl-n, bspace
	End   string   `json:"end"`   // enter | esc | ctrl-c
}

type c18sPlan struct {
	sysPlan
	Init     []string     `json:"init"`
	Max      int          `json:"max"`
	Sessions []c18Session `json:"sessions"`
}

func genC18sPlan(r *zsim.Rng) *c18sPlan {
	p := &c18sPlan{}
	p.Match = matchCfg{Fuzzy: true, Extended: true, Sort: true, Normal: true}
	p.Cols, p.Rows = 60, 16
	p.Lines = lineSpec{N: r.Range(1, 30), Seed: r.Seed53(), Shape: 0}
	p.Max = []int{1, 2, 3, 5, 1000}[r.Intn(5)]
	for i := r.Intn(6); i > 0; i-- {
		p.Init = append(p.Init, "h"+strconv.Itoa(r.Intn(20)))
	}
	for s := r.Range(1, 5); s > 0; s-- {
		// alt-b: become(BE {}) - replaces fzf with the command if there is a current line (the query counts as
		// submitted), does nothing otherwise (the harness then aborts the session)
		ses := c18Session{End: []string{"enter", "enter", "enter", "esc", "ctrl-c", "alt-p", "alt-b"}[r.Intn(7)]}
		for k := r.Intn(10); k > 0; k-- {
			// alt-s: search(hx) - what is searched is not what was typed; the history records the query line
			ses.Steps = append(ses.Steps, []string{"a", "b", "z", "q", "ctrl-p", "ctrl-p", "ctrl-n", "bspace", "alt-s", "alt-t", "ctrl-p", "ctrl-n", "alt-i"}[r.Intn(13)])
		}
		p.Sessions = append(p.Sessions, ses)
	}
	return p
}

func runC18s(c *runCtx) {
	plan := &c18sPlan{}
	if !c.loadPlan(plan) {
		plan = genC18sPlan(c.rng)
	}
	c.plan = plan
	if plan.Max < 1 {
		plan.Max = 1
	}
	dir, err := os.MkdirTemp("", "verif-c18s-")
	if err != nil {
		panic("zsim: INFRA " + err.Error())
	}
	defer os.RemoveAll(dir)
	path := filepath.Join(dir, "history")
	var E []string
	for _, l := range plan.Init {
		if l = strings.ReplaceAll(l, "\n", ""); l != "" {
			E = append(E, l)
		}
	}
	if len(E) > 0 {
		os.WriteFile(path, []byte(strings.Join(E, "\n")+"\n"), 0o600)
	}
	fileModel := ""
	if len(E) > 0 {
		fileModel = strings.Join(E, "\n") + "\n"
	}
	for si, ses := range plan.Sessions {
		sp := plan.sysPlan
		sp.Args = append(append([]string{}, plan.sysPlan.Args...), "--history", path, "--history-size", strconv.Itoa(plan.Max),
			"--bind", "alt-s:search(hx)", "--bind", "alt-p:print-query", "--bind", "alt-b:become(BE {})",
			// alt-t: the query line is replaced by the output of a command - an edit like any other
			"--bind", "alt-t:transform-query(TQ 1)",
			// alt-i: the input section is hidden / shown again; while it is hidden the query line cannot change
			"--bind", "alt-i:toggle-input")
		sp.Procs = []procSpec{{Text: "tq\n"}}
		sp.Events = []sysEvent{{Kind: "settle"}}
		for _, k := range ses.Steps {
			sp.Events = append(sp.Events, sysEvent{Kind: "keys", Keys: k}, sysEvent{Kind: "settle"})
		}
		sp.Events = append(sp.Events, sysEvent{Kind: "keys", Keys: ses.End})
		if ses.End == "alt-b" {
			sp.Events = append(sp.Events, sysEvent{Kind: "settle"})
		}
		r := newSysRun(c, &sp)
		// model of the query line under history navigation (same as H-hist's); a session loads the most recent
		// --history-size entries of a file that holds more
		if len(E) > plan.Max {
			E = E[len(E)-plan.Max:]
			c.count("probe.loaded_file_over_limit", 1)
		}
		pos := len(E)
		scratch := ""
		modified := map[int]string{}
		input := ""
		cur := func() string {
			if pos == len(E) {
				return scratch
			}
			if s, ok := modified[pos]; ok {
				return s
			}
			return E[pos]
		}
		store := func(s string) {
			if pos == len(E) {
				scratch = s
			} else {
				modified[pos] = s
			}
		}
		hidden := false
		for _, k := range ses.Steps {
			if k == "alt-i" {
				hidden = !hidden
				continue
			}
			if hidden {
				continue // nothing can change the query line, so nothing moves through the history either
			}
			switch k {
			case "ctrl-p":
				store(input)
				if pos > 0 {
					pos--
				}
				input = cur()
			case "ctrl-n":
				store(input)
				if pos < len(E) {
					pos++
				}
				input = cur()
			case "bspace":
				if len(input) > 0 {
					input = input[:len(input)-1]
				}
			case "alt-s":
			case "alt-t":
				input = "tq"
			default:
				input += k
			}
		}
		r.onSettle = func(r *sysRun, busy bool, final bool) {}
		r.start()
		ok := r.drive()
		st := r.state()
		if ok && !r.done {
			r.finish()
		} else {
			r.sim.Stop()
		}
		commonExitChecks(r)
		r.cleanup()
		became := r.became != ""
		if !(r.done || became) || len(c.viol) > 0 {
			return
		}
		_ = st
		if became {
			c.count("probe.become_submits", 1)
		}
		// a query is recorded iff the session ended with exit status <= 1 (or by replacing itself with the
		// command of become) and the query is not empty
		if input != "" && (became || r.code <= ExitNoMatch && (ses.End == "enter" || ses.End == "alt-p")) {
			E = append(append([]string{}, E...), input)
			if len(E) > plan.Max {
				E = E[len(E)-plan.Max:]
			}
			fileModel = strings.Join(E, "\n") + "\n"
			c.count("nontrivial", 1)
			if r.code == ExitNoMatch {
				c.count("probe.submitted_with_no_match", 1)
			}
		}
		if ses.End == "enter" && r.code > ExitNoMatch {
			c.violate("c18s.exit_code", "session %d ended with enter but exit status %d", si, r.code)
			return
		}
		got, _ := os.ReadFile(path)
		if string(got) != fileModel {
			c.violate("c18s.file", "after session %d (keys %v, end %s, exit %d, query %q): history file holds %q, expected %q", si, ses.Steps, ses.End, r.code, input, clip(got), clip([]byte(fileModel)))
			return
		}
	}
	c.state = fmt.Sprintf("sessions=%d entries=%d", len(plan.Sessions), len(E))
}

func init() {
	scenarios["c07i"] = scenario{bubble: true, run: runC07i}
	scenarios["c18s"] = scenario{bubble: true, run: runC18s}
}
