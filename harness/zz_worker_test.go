//go:debug asynctimerchan=0

//go:build verif

package fzf

// Worker side of the /verif checks. The driver (cmd/verifdrv) starts this test
// binary with VERIF_JOB=<job.json>; results are appended as JSON lines to the
// file named in the job. One process runs many seeds of one scenario.

import (
	"encoding/json"
	"fmt"
	"os"
	"runtime"
	"runtime/debug"
	"sort"
	"strings"
	"sync"
	"testing"
	"testing/synctest"
	"time"

	"github.com/junegunn/fzf/src/zsim"
)

type job struct {
	Property string         `json:"property"`
	Scenario string         `json:"scenario"`
	Base     uint64         `json:"base"`
	From     int            `json:"from"`
	To       int            `json:"to"`
	Out      string         `json:"out"`
	Tier     string         `json:"tier"`
	Replay   *replayRec     `json:"replay,omitempty"`
	Params   map[string]int `json:"params,omitempty"`
	Deadline int64          `json:"deadline_unix,omitempty"`
	WantPlan bool           `json:"want_plan,omitempty"`
}

// replayRec is the replay file: plan + realised tape (+ what it produced).
type replayRec struct {
	Property  string          `json:"property"`
	Scenario  string          `json:"scenario"`
	Seed      uint64          `json:"seed"`
	Plan      json.RawMessage `json:"plan"`
	Tape      []uint32        `json:"tape"`
	Signature string          `json:"signature,omitempty"`
	Detail    string          `json:"detail,omitempty"`
	LogHash   string          `json:"log_hash,omitempty"`
	Tree      string          `json:"tree,omitempty"`
	Trace     []string        `json:"trace,omitempty"`
	History   []string        `json:"history,omitempty"`
	Params    map[string]int  `json:"params,omitempty"`
}

type violation struct {
	Class  string `json:"class"`
	Detail string `json:"detail"`
}

type runResult struct {
	T        string          `json:"t"`
	Seed     uint64          `json:"seed"`
	Index    int             `json:"index"`
	Viol     []violation     `json:"viol,omitempty"`
	Infra    string          `json:"infra,omitempty"`
	Hash     string          `json:"hash,omitempty"`
	SchedH   string          `json:"sched_hash,omitempty"`
	Steps    int             `json:"steps,omitempty"`
	Preempt  int             `json:"preempt,omitempty"`
	SimNs    int64           `json:"sim_ns,omitempty"`
	Outcome  string          `json:"outcome,omitempty"`
	Counters map[string]int  `json:"counters,omitempty"`
	Plan     json.RawMessage `json:"plan,omitempty"`
	Tape     []uint32        `json:"tape,omitempty"`
	Trace    []string        `json:"trace,omitempty"`
	History  []string        `json:"history,omitempty"`
	State    string          `json:"state,omitempty"`
	Sites    map[string]int  `json:"sites,omitempty"`
	SitesP   map[string]int  `json:"sites_preempt,omitempty"`
}

// runCtx is what a scenario sees.
type runCtx struct {
	t         *testing.T
	seed      uint64
	rng       *zsim.Rng // workload stream
	schedSeed uint64
	replay    *replayRec
	params    map[string]int
	tier      string
	viol      []violation
	counters  map[string]int
	plan      any
	sim       *zsim.Sim
	outcome   string
	state     string

	prop        string     // property the run is for (a scenario may serve several)
	passThrough bool       // auxiliary -race mode: no scheduling, yields are Gosched
	mu          sync.Mutex // counters/violations may be touched from several goroutines in that mode
}

func (c *runCtx) violate(class, format string, a ...any) {
	d := fmt.Sprintf(format, a...)
	if len(d) > 1500 {
		d = d[:1500] + "…"
	}
	c.mu.Lock()
	c.viol = append(c.viol, violation{class, d})
	c.mu.Unlock()
}
func (c *runCtx) count(k string, n int) {
	c.mu.Lock()
	c.counters[k] += n
	c.mu.Unlock()
}
func (c *runCtx) param(k string, def int) int {
	if v, ok := c.params[k]; ok {
		return v
	}
	return def
}

// loadPlan fills p from the replay record if replaying; reports whether it did.
func (c *runCtx) loadPlan(p any) bool {
	if c.replay == nil || len(c.replay.Plan) == 0 || string(c.replay.Plan) == "null" {
		return false
	}
	if err := json.Unmarshal(c.replay.Plan, p); err != nil {
		panic("zsim: INFRA bad replay plan: " + err.Error())
	}
	return true
}

// simConfig derives the scheduler configuration of a run (swarm style).
func (c *runCtx) simConfig() zsim.Config {
	r := zsim.NewRng(zsim.Mix(c.schedSeed, 1))
	cfg := zsim.Config{SchedSeed: c.schedSeed, Strategy: r.Intn(3), StickyPermil: 500 + r.Intn(490),
		ChangePoints: 1 + r.Intn(6), ExpectedSteps: 3000, StallMaxMs: 300}
	if r.Intn(3) > 0 {
		cfg.StallPermil = []int{1, 4, 12, 30}[r.Intn(4)]
	}
	if c.replay != nil && c.replay.Tape != nil {
		// the k-th simulation of the evaluation replays the k-th segment of the recorded tape
		seg, k := []uint32{}, 0
		for _, v := range c.replay.Tape {
			if v == zsim.TapeSep {
				if k == len(zsim.Created) {
					break
				}
				k++
				seg = seg[:0]
				continue
			}
			if k == len(zsim.Created) {
				seg = append(seg, v)
			}
		}
		if k < len(zsim.Created) {
			seg = []uint32{}
		}
		cfg.Replay = seg
	}
	if c.passThrough {
		cfg.PassThrough = true
		cfg.Replay = nil
	}
	if v := os.Getenv("VERIF_TRACECAP"); v != "" {
		fmt.Sscan(v, &cfg.TraceCap)
	}
	return cfg
}

type scenario struct {
	bubble bool
	run    func(c *runCtx)
}

var scenarios = map[string]scenario{}

func TestVerifWorker(t *testing.T) {
	path := os.Getenv("VERIF_JOB")
	if path == "" {
		t.Skip("no VERIF_JOB")
	}
	data, err := os.ReadFile(path)
	if err != nil {
		t.Fatal(err)
	}
	var j job
	if err := json.Unmarshal(data, &j); err != nil {
		t.Fatal(err)
	}
	sc, ok := scenarios[j.Scenario]
	if !ok {
		fmt.Fprintf(os.Stderr, "INFRA unknown scenario %q\n", j.Scenario)
		os.Exit(2)
	}
	out, err := os.OpenFile(j.Out, os.O_CREATE|os.O_WRONLY|os.O_APPEND, 0o644)
	if err != nil {
		t.Fatal(err)
	}
	defer out.Close()
	emit := func(r *runResult) {
		b, _ := json.Marshal(r)
		out.Write(append(b, '\n'))
	}
	scenBase := zsim.Mix(j.Base, zsim.HashString(j.Property+"/"+j.Scenario))
	from, to := j.From, j.To
	if j.Replay != nil {
		from, to = 0, 1
	}
	for i := from; i < to; i++ {
		if j.Deadline > 0 && time.Now().Unix() > j.Deadline {
			break
		}
		seed := zsim.Mix(scenBase, uint64(i))
		if j.Replay != nil {
			seed = j.Replay.Seed
		}
		emit(&runResult{T: "start", Seed: seed, Index: i})
		c := &runCtx{t: t, seed: seed, rng: zsim.NewRng(zsim.Mix(seed, 11)), schedSeed: zsim.Mix(seed, 22),
			replay: j.Replay, params: j.Params, tier: j.Tier, counters: map[string]int{}, prop: j.Property}
		res := &runResult{T: "done", Seed: seed, Index: i}
		zsim.Created = nil
		stopWatch := spinWatch()
		runOne(sc, c, res)
		stopWatch()
		res.Viol = c.viol
		res.Counters = c.counters
		res.Outcome = c.outcome
		res.State = c.state
		if c.sim != nil {
			if !c.sim.PassThrough() {
				// pass-through (-race) runs have no schedule trace: they are told apart by their plan (state)
				h := c.sim.Hash()
				if len(zsim.Created) > 1 {
					h = 0
					for _, sm := range zsim.Created {
						h = zsim.Mix(h, sm.Hash())
					}
				}
				res.Hash = fmt.Sprintf("%016x", h)
			}
			res.Steps = c.sim.Stats.Steps
			res.Preempt = c.sim.Stats.Preemptions
			res.SimNs = c.sim.Stats.SimNanos
			res.Counters["sched.stalls"] += c.sim.Stats.Stalls
			res.Counters["sched.preemptions"] += c.sim.Stats.Preemptions
			res.Counters["sched.mailbox_multi"] += c.sim.Stats.KeysMulti
			res.Counters["sched.goroutines"] += c.sim.Stats.Goroutines
			res.Sites = c.sim.Stats.SitesHit
			res.SitesP = c.sim.Stats.SitesPreempt
		}
		if len(c.viol) > 0 || res.Infra != "" || j.WantPlan || j.Replay != nil || i-from < 2 {
			if c.plan != nil {
				res.Plan, _ = json.Marshal(c.plan)
			}
			if c.sim != nil {
				res.Tape = nil
				for k, sm := range zsim.Created {
					if k > 0 {
						res.Tape = append(res.Tape, zsim.TapeSep)
					}
					res.Tape = append(res.Tape, sm.Tape()...)
				}
				if res.Tape == nil {
					res.Tape = c.sim.Tape()
				}
				res.Trace = c.sim.Trace()
				res.History = c.sim.History()
			}
		}
		emit(res)
		if res.Infra != "" {
			fmt.Fprintf(os.Stderr, "INFRA %s\n", res.Infra)
			out.Close()
			os.Exit(2)
		}
	}
}

// spinWatch: code of the system under test that loops without ever reaching a synchronisation point (a yield)
// freezes the simulation - the scheduler only gets control at yields. If the scheduler has not made a step
// for 40 s of real time and a goroutine is running inside fzf's own code, the process reports it in the
// form of a crash (the parent turns it into a violation of class sys.cpu_loop) and exits.
func spinWatch() func() {
	done := make(chan struct{})
	exited := make(chan struct{})
	go func() {
		defer close(exited)
		last, since := -1, time.Now()
		for {
			select {
			case <-done:
				return
			case <-time.After(5 * time.Second):
			}
			steps := int(zsim.StepCount.Load())
			if steps != last {
				last, since = steps, time.Now()
				continue
			}
			if time.Since(since) < 40*time.Second {
				continue
			}
			buf := make([]byte, 4<<20)
			n := runtime.Stack(buf, true)
			for _, g := range strings.Split(string(buf[:n]), "\n\n") {
				head := g
				if k := strings.Index(g, "\n"); k > 0 {
					head = g[:k]
				}
				if !strings.Contains(head, "[running") && !strings.Contains(head, "[runnable") {
					continue
				}
				lines := strings.Split(g, "\n")
				top := ""
				for _, l := range lines[1:] {
					if strings.HasPrefix(l, "\t") || strings.HasPrefix(l, "runtime.") || strings.HasPrefix(l, "runtime/") {
						continue
					}
					top = l
					break
				}
				if !strings.Contains(top, "github.com/junegunn/fzf/src") || strings.Contains(top, "/zsim") || strings.Contains(g, "spinWatch") {
					continue
				}
				inHarness := false
				for _, l := range lines {
					if strings.Contains(l, "zz_") && strings.HasPrefix(l, "\t") {
						// harness frames below are fine (the harness starts fzf); only the innermost frames matter
						break
					}
				}
				_ = inHarness
				fmt.Fprintf(os.Stderr, "panic: CPU-LOOP fzf code has been running for %v of real time without reaching a synchronisation point (the simulation is frozen at step %d)\n\n%s\n", time.Since(since).Round(time.Second), steps, g)
				os.Exit(2)
			}
			since = time.Now() // nothing of fzf's is running: the harness or the runtime is busy; keep waiting
		}
	}()
	return func() { close(done); <-exited }
}

func runOne(sc scenario, c *runCtx, res *runResult) {
	guard := func() {
		if r := recover(); r != nil {
			msg := fmt.Sprint(r)
			if zsim.IsInfra(r) || strings.Contains(msg, "INFRA") {
				res.Infra = msg
				return
			}
			if strings.Contains(msg, "blocked goroutines remain") {
				// leftovers of the run parked forever on bubble channels; expected (DESIGN 3.2)
				c.count("end.leftover_goroutines", 1)
				return
			}
			stack := string(debug.Stack())
			if strings.Contains(msg, "deadlock: all goroutines in bubble are blocked") {
				res.Infra = "unexpected bubble deadlock (root blocked): " + msg
				return
			}
			if harnessFrameOnTop(stack) {
				res.Infra = "harness panic: " + msg + "\n" + stack
				return
			}
			c.violate("panic", "%s\n%s", msg, trimStack(stack))
		}
	}
	defer guard()
	if sc.bubble {
		synctest.Test(c.t, func(t *testing.T) {
			defer guard()
			defer func() {
				if s := zsim.Cur(); s != nil {
					s.Close()
				}
			}()
			sc.run(c)
		})
	} else {
		sc.run(c)
	}
}

// harnessFrameOnTop: is the innermost non-runtime frame of the panic in the
// harness / simulator (infrastructure) rather than in fzf code?
func harnessFrameOnTop(stack string) bool {
	lines := strings.Split(stack, "\n")
	for i := 0; i+1 < len(lines); i++ {
		l := lines[i]
		if strings.HasPrefix(l, "\t") || strings.HasPrefix(l, "goroutine ") || l == "" {
			continue
		}
		if strings.HasPrefix(l, "runtime") || strings.HasPrefix(l, "panic(") || strings.Contains(l, "debug.Stack") ||
			strings.Contains(l, "runOne") {
			continue
		}
		file := lines[i+1]
		if strings.Contains(file, "/zz_") || strings.Contains(file, "/zsim/") {
			return true
		}
		return false
	}
	return false
}

func trimStack(s string) string {
	lines := strings.Split(s, "\n")
	if len(lines) > 40 {
		lines = lines[:40]
	}
	return strings.Join(lines, "\n")
}

func sortedKeys(m map[string]int) []string {
	ks := make([]string, 0, len(m))
	for k := range m {
		ks = append(ks, k)
	}
	sort.Strings(ks)
	return ks
}
