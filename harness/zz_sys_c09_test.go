//go:build verif

package fzf

// C09 (and the interactive half of C07): the query line, the list cursor and
// the selection evolve as the actions prescribe. A reference editor / cursor /
// selection model, written from readline and man-page semantics, is driven by
// the same action history as the real Terminal and compared at every settle.

import (
	"fmt"
	"os"
	"strconv"
	"strings"
	"unicode"

	"github.com/junegunn/fzf/src/zsim"
)

// ---------------------------------------------------------------------------
// reference model

type uiModel struct {
	query    []rune
	cx       int
	yank     []rune
	cy       int
	multi    int // 0: single, else limit
	sel      []int32
	cycle    bool
	reverse  bool // layout != default: index 0 is at the top
	list     []int32
	pageSize int
	jumping  bool // the next key is a jump label
	lineOf   func(idx int32) string
}

func isWordRune(r rune) bool { return unicode.IsLetter(r) || unicode.IsNumber(r) }

func (m *uiModel) backwardWordPos() int {
	// start of the word at or before the cursor: skip non-word runes to the left, then word runes
	i := m.cx
	for i > 0 && !isWordRune(m.query[i-1]) {
		i--
	}
	for i > 0 && isWordRune(m.query[i-1]) {
		i--
	}
	return i
}

func (m *uiModel) forwardWordPos() int {
	// end of the next word: skip non-word runes to the right, then word runes
	n := len(m.query)
	i := m.cx
	for i < n && !isWordRune(m.query[i]) {
		i++
	}
	for i < n && isWordRune(m.query[i]) {
		i++
	}
	return i
}

func (m *uiModel) unixWordPos() int {
	// whitespace-delimited word to the left
	i := m.cx
	for i > 0 && unicode.IsSpace(m.query[i-1]) {
		i--
	}
	for i > 0 && !unicode.IsSpace(m.query[i-1]) {
		i--
	}
	return i
}

func (m *uiModel) insert(rs []rune) {
	q := append([]rune{}, m.query[:m.cx]...)
	q = append(q, rs...)
	q = append(q, m.query[m.cx:]...)
	m.query = q
	m.cx += len(rs)
}

func (m *uiModel) kill(from, to int) {
	if from >= to {
		return
	}
	m.yank = append([]rune{}, m.query[from:to]...)
	m.query = append(append([]rune{}, m.query[:from]...), m.query[to:]...)
	m.cx = from
}

func (m *uiModel) isSelected(idx int32) int {
	for i, s := range m.sel {
		if s == idx {
			return i
		}
	}
	return -1
}

func (m *uiModel) selectIdx(idx int32) bool {
	if len(m.sel) >= m.multi {
		return false
	}
	if m.isSelected(idx) >= 0 {
		return true
	}
	m.sel = append(m.sel, idx)
	return true
}

func (m *uiModel) deselectIdx(idx int32) {
	if i := m.isSelected(idx); i >= 0 {
		m.sel = append(append([]int32{}, m.sel[:i]...), m.sel[i+1:]...)
	}
}

func (m *uiModel) current() (int32, bool) {
	if len(m.list) == 0 || m.cy < 0 || m.cy >= len(m.list) {
		return 0, false
	}
	return m.list[m.cy], true
}

func (m *uiModel) setCy(n int) {
	if n > len(m.list)-1 {
		n = len(m.list) - 1
	}
	if n < 0 {
		n = 0
	}
	m.cy = n
}

// move by o screen lines upward (o>0 = towards the top of the screen)
func (m *uiModel) vmove(o int, allowCycle bool) {
	if m.reverse {
		o = -o
	}
	dest := m.cy + o
	if m.cycle && allowCycle && len(m.list) > 0 {
		max := len(m.list) - 1
		if dest > max && m.cy == max {
			dest = 0
		} else if dest < 0 && m.cy == 0 {
			dest = max
		}
	}
	m.setCy(dest)
}

func (m *uiModel) toggleCurrent() bool {
	idx, ok := m.current()
	if !ok {
		return false
	}
	if m.isSelected(idx) < 0 {
		return m.selectIdx(idx)
	}
	m.deselectIdx(idx)
	return true
}

// apply returns false if the action is outside the modelled vocabulary.
func (m *uiModel) apply(action string) bool {
	// "a+b" in a binding is a chain of actions (so `toggle+down` is toggle, then down – it moves even
	// when the toggle is refused; the atomic variants are toggle-down / toggle-up)
	if action == c09HiddenCancel {
		m.insert([]rune("z"))
		m.yank = append([]rune{}, m.query...)
		m.cx = len(m.query)
		return true
	}
	depth := 0
	for i := 0; i < len(action); i++ {
		switch action[i] {
		case '(':
			depth++
		case ')':
			depth--
		case '+':
			if depth == 0 && i > 0 && i < len(action)-1 && !strings.HasPrefix(action, "char:") {
				return m.apply(action[:i]) && m.apply(action[i+1:])
			}
		}
	}
	name, arg := action, ""
	if i := strings.IndexByte(action, '('); i > 0 && strings.HasSuffix(action, ")") {
		name, arg = action[:i], action[i+1:len(action)-1]
	}
	if strings.HasPrefix(name, "char:") {
		m.insert([]rune(name[5:]))
		return true
	}
	switch name {
	case "beginning-of-line":
		m.cx = 0
	case "end-of-line":
		m.cx = len(m.query)
	case "backward-char":
		if m.cx > 0 {
			m.cx--
		}
	case "forward-char":
		if m.cx < len(m.query) {
			m.cx++
		}
	case "backward-word":
		m.cx = m.backwardWordPos()
	case "forward-word":
		m.cx = m.forwardWordPos()
	case "delete-char":
		if m.cx < len(m.query) {
			m.query = append(append([]rune{}, m.query[:m.cx]...), m.query[m.cx+1:]...)
		}
	case "backward-delete-char":
		if m.cx > 0 {
			m.query = append(append([]rune{}, m.query[:m.cx-1]...), m.query[m.cx:]...)
			m.cx--
		}
	case "kill-word":
		m.kill(m.cx, m.forwardWordPos())
	case "backward-kill-word":
		m.kill(m.backwardWordPos(), m.cx)
	case "unix-word-rubout":
		m.kill(m.unixWordPos(), m.cx)
	case "unix-line-discard":
		m.kill(0, m.cx)
	case "kill-line":
		m.kill(m.cx, len(m.query))
	case "yank":
		m.insert(m.yank)
	case "replace-query":
		// the query becomes a copy of the current line's text
		if idx, ok := m.current(); ok && m.lineOf != nil {
			m.query = []rune(m.lineOf(idx))
			m.cx = len(m.query)
		}
	case "clear-query":
		m.query, m.cx = nil, 0
	case "change-query":
		m.query = []rune(arg)
		m.cx = len(m.query)
	case "put":
		m.insert([]rune(arg))
	case "up":
		m.vmove(1, true)
	case "down":
		m.vmove(-1, true)
	case "first":
		m.setCy(0)
	case "last":
		m.setCy(len(m.list) - 1)
	case "pos":
		n, err := strconv.Atoi(arg)
		if err == nil {
			if n > 0 {
				n--
			} else if n < 0 {
				n += len(m.list)
			}
			m.setCy(n)
		}
	case "page-up", "page-down", "half-page-up", "half-page-down":
		lines := m.pageSize - 1
		if strings.HasPrefix(name, "half") {
			lines = m.pageSize / 2
		}
		if lines < 1 {
			lines = 1
		}
		dir := -1
		if strings.HasSuffix(name, "up") {
			dir = 1
		}
		if m.reverse {
			dir = -dir
		}
		m.setCy(m.cy + dir*lines)
	case "select":
		if idx, ok := m.current(); ok && m.multi > 0 {
			m.selectIdx(idx)
		}
	case "deselect":
		if idx, ok := m.current(); ok && m.multi > 0 {
			m.deselectIdx(idx)
		}
	case "toggle":
		if m.multi > 0 {
			m.toggleCurrent()
		}
	case "toggle-down":
		// in a --bind specification this name is the chain toggle, down
		return m.apply("toggle") && m.apply("down")
	case "toggle-up":
		return m.apply("toggle") && m.apply("up")
	case "toggle-in", "toggle-out":
		// atomic: the cursor moves only if the toggle took effect; "in" is towards the prompt
		up := name == "toggle-out"
		if m.reverse {
			up = !up
		}
		if m.multi > 0 && m.toggleCurrent() {
			if up {
				m.vmove(1, true)
			} else {
				m.vmove(-1, true)
			}
		}
	case "select-all":
		if m.multi > 0 {
			for _, idx := range m.list {
				if !m.selectIdx(idx) {
					break
				}
			}
		}
	case "deselect-all":
		if m.multi > 0 {
			for _, idx := range m.list {
				m.deselectIdx(idx)
			}
		}
	case "toggle-all":
		if m.multi > 0 {
			was := map[int32]bool{}
			for _, idx := range m.list {
				if m.isSelected(idx) >= 0 {
					was[idx] = true
					m.deselectIdx(idx)
				}
			}
			for _, idx := range m.list {
				if !was[idx] {
					if !m.selectIdx(idx) {
						break
					}
				}
			}
		}
	case "clear-selection":
		if m.multi > 0 {
			m.sel = nil
		}
	case "next-selected", "prev-selected":
		// to the nearest selected result below (next) / above (prev) the current one on the screen, going
		// round the list; the current line stays if no other result is selected
		if total := len(m.list); len(m.sel) > 0 && total > 1 {
			step := 1 // index 0 is at the top (reverse layouts): down the screen is up the index
			if !m.reverse {
				step = -1
			}
			if name == "prev-selected" {
				step = -step
			}
			for i := 1; i < total; i++ {
				y := ((m.cy+step*i)%total + total) % total
				if m.isSelected(m.list[y]) >= 0 {
					m.cy = y
					break
				}
			}
		}
	case "offset-up", "offset-down":
		// scrolls the list by one row; the cursor moves along only if it would leave the window (the scroll
		// offset is not modelled: the caller allows one position of slack, never a wrap-around)
	case "jump":
		m.jumping = true
	case "change-multi":
		nm := m.multi
		if arg == "" {
			nm = int(maxMulti)
		} else if n, err := strconv.Atoi(arg); err == nil && n >= 0 {
			nm = n
		}
		if m.multi > 0 && nm != m.multi {
			m.sel = nil
		}
		m.multi = nm
	default:
		return false
	}
	return true
}

// ---------------------------------------------------------------------------
// scenario

var c09Actions = []string{
	"beginning-of-line", "end-of-line", "backward-char", "forward-char", "backward-word", "forward-word",
	"delete-char", "backward-delete-char", "kill-word", "backward-kill-word", "unix-word-rubout", "unix-line-discard",
	"kill-line", "yank", "clear-query", "change-query(ab c)", "change-query(f)", "put(e-d)", "put( )", "change-query(héllo wörld ab)", "put(日é)",
	"up", "down", "first", "last", "pos(3)", "pos(-2)", "pos(0)", "page-up", "page-down", "half-page-up", "half-page-down",
	"select", "deselect", "toggle", "toggle+down", "toggle+up", "toggle-down", "toggle-up", "toggle-in", "toggle-out", "select-all", "deselect-all",
	"toggle-all", "clear-selection", "change-multi(2)", "change-multi", "change-multi(0)",
	"jump", "put(" + c09LongText + ")", "replace-query", "next-selected", "prev-selected", "offset-up", "offset-down",
	c09HiddenCancel,
}

// cancel while the input section is hidden: the query stays (every change is discarded while it is hidden) and
// becomes the text that yank inserts; hiding the section leaves the cursor at the end of the query
const c09HiddenCancel = "put(z)+hide-input+cancel+show-input"

// longer than the 1000 runes a query may hold
var c09LongText = strings.Repeat("ab cd ", 170)

// the man page's default --jump-labels
const c09JumpLabels = "asdfghjklqwertyuiopzxcvbnm1234567890ASDFGHJKLQWERTYUIOPZXCVBNM`~;:,<.>/?'\"!@#$%^&*()[{]}-_=+"

var c09Keys = func() []string {
	var ks []string
	for c := 'a'; c <= 'z'; c++ {
		ks = append(ks, "alt-"+string(c))
	}
	for c := '0'; c <= '9'; c++ {
		ks = append(ks, "alt-"+string(c))
	}
	ks = append(ks, "f1", "f2", "f3", "f4", "ctrl-a", "ctrl-b", "ctrl-e", "ctrl-f", "ctrl-k", "ctrl-n", "ctrl-p", "ctrl-t", "ctrl-u", "ctrl-w", "ctrl-y")
	return ks
}()

func genC09Plan(r *zsim.Rng) *sysPlan {
	p := &sysPlan{Match: genMatchCfg(r), Cols: r.Range(30, 100), Rows: r.Range(6, 40)}
	if r.Chance(1, 5) {
		p.Rows = r.Range(3, 6)
	}
	p.Match.Tac = r.Chance(1, 4)
	n := []int{0, 1, 2, r.Range(3, 12), r.Range(10, 60), r.Range(50, 400)}[r.Intn(6)]
	// now and then: several chunks of 100 records inside a --tail window, arriving in stages, so that the
	// trimming cuts through chunks that earlier snapshots (and the selection) still refer to
	bigStream := r.Chance(1, 12)
	if bigStream {
		n = r.Range(300, 900)
	}
	p.Lines = lineSpec{N: n, Seed: r.Seed53(), Shape: r.Intn(4)}
	if r.Chance(1, 3) {
		// some lines outside ASCII (kept as runes, not bytes, by the item); now and then nearly all of them
		if !bigStream && r.Chance(1, 2) {
			p.Lines.N = r.Intn(3)
		}
		for k := r.Range(1, 6); k > 0; k-- {
			p.Lines.Extra = append(p.Lines.Extra, []string{"héllo wörld", "日本語 ab", "ab é日 cd", "ÀÉÎ õü f", "e-d 日é"}[r.Intn(5)]+fmt.Sprintf(" ~%d", k))
		}
	}
	switch r.Intn(4) {
	case 0:
		p.Multi = 0
	case 1:
		p.Multi = -1
	default:
		p.Multi = r.Range(1, 5)
	}
	if r.Chance(1, 3) {
		p.Args = append(p.Args, "--cycle")
	}
	switch r.Intn(3) {
	case 1:
		p.Args = append(p.Args, "--layout", "reverse")
	case 2:
		p.Args = append(p.Args, "--layout", "reverse-list")
	}
	if r.Chance(1, 3) {
		p.Args = append(p.Args, "--height", []string{"40%", "10", "5", "100%", "3", "4", "~8", "~60%"}[r.Intn(8)])
		p.CurRow = r.Intn(p.Rows)
	}
	if r.Chance(1, 6) {
		p.Args = append(p.Args, "--no-input")
	}
	if r.Chance(1, 4) {
		p.Args = append(p.Args, "--track")
	}
	if r.Chance(1, 4) {
		p.Args = append(p.Args, "--query", []string{"ab", "a b", "abc def", "é日", "f", "  a"}[r.Intn(6)])
	}
	// streamed input: the producer writes the records in stages while the user is already at work
	// (not with an adaptive height: that interface only comes up when the input is complete or fills it)
	feeds := 0
	if n >= 3 && (bigStream || r.Chance(1, 3)) && !strings.HasPrefix(argValue(p.Args, "--height"), "~") {
		feeds = r.Range(1, 3)
		left := n
		for i := 0; i < feeds; i++ {
			k := r.Range(0, left)
			if r.Chance(1, 2) {
				k = r.Range(0, maxInt(1, left/3))
			}
			p.Stages = append(p.Stages, k)
			left -= k
		}
		if r.Chance(1, 2) {
			p.Tail = []int{1, 2, 3, r.Range(1, n), r.Range(1, maxInt(1, n/2))}[r.Intn(5)]
			if s0 := p.Stages[0]; s0 > 0 && r.Chance(1, 2) {
				// aim at the boundary: the window after the last stage still holds some of the records
				// that were listed (and possibly selected) during the first one
				p.Tail = r.Range(n-s0+1, n)
			}
		}
		if r.Chance(1, 2) {
			p.Multi = -1
		}
		if bigStream {
			p.Tail = r.Range(110, 420)
			p.Multi = -1
		}
		p.HoldOpen = r.Chance(1, 3)
	}
	// a second input for reload (never together with staged stdin: one moving part at a time)
	p.Gens = []lineSpec{p.Lines, {N: []int{0, 1, r.Range(2, 40), r.Range(20, 300)}[r.Intn(4)], Seed: r.Seed53(), Shape: r.Intn(4)}}
	reloadKey := ""
	if feeds == 0 && r.Chance(1, 3) {
		reloadKey = "ctrl-r"
		p.Args = append(p.Args, "--bind", "ctrl-r:reload(GEN 1)")
		if r.Chance(1, 2) {
			p.GenProc = []procSpec{{Chunks: []int{r.Range(1, 30)}, DelaysMs: []int{[]int{0, 10, 400, 400, 900}[r.Intn(5)]}}}
		}
	}
	// bind a random subset of the vocabulary
	perm := make([]int, len(c09Actions))
	for i := range perm {
		perm[i] = i
	}
	for i := len(perm) - 1; i > 0; i-- {
		j := r.Intn(i + 1)
		perm[i], perm[j] = perm[j], perm[i]
	}
	nb := len(c09Keys)
	if nb > len(perm) {
		nb = len(perm)
	}
	type kb struct{ key, action string }
	var bound []kb
	for i := 0; i < nb; i++ {
		a := c09Actions[perm[i]]
		if a == c09HiddenCancel && hasArg(p.Args, "--no-input") {
			a = "yank" // show-input would end --no-input for the rest of the session
		}
		bound = append(bound, kb{c09Keys[i], a})
		p.Args = append(p.Args, "--bind", c09Keys[i]+":"+a)
	}
	// two more ways to close the session
	p.Args = append(p.Args, "--bind", "f5:accept-or-print-query", "--bind", "f6:accept-non-empty")
	p.Events = append(p.Events, sysEvent{Kind: "settle"})
	if feeds > 0 && r.Chance(1, 2) {
		// make sure something is selected and a query is in force when the next stage arrives
		keyOf := func(action string) string {
			for _, b := range bound {
				if b.action == action {
					return b.key
				}
			}
			return "space"
		}
		for _, a := range [][]string{{"select-all"}, {"toggle", "up", "toggle"}, {"last", "toggle"}, {"toggle-all"}}[r.Intn(4)] {
			p.Events = append(p.Events, sysEvent{Kind: "keys", Keys: keyOf(a)})
		}
		p.Events = append(p.Events, sysEvent{Kind: "settle"})
		if r.Chance(2, 3) {
			p.Events = append(p.Events, sysEvent{Kind: "keys", Keys: string([]rune("abcdef1")[r.Intn(7)])}, sysEvent{Kind: "settle"})
		}
		feeds--
		p.Events = append(p.Events, sysEvent{Kind: "feed", DelayMs: r.Intn(30)}, sysEvent{Kind: "settle"})
	}
	if r.Chance(1, 4) {
		// an event of the list machinery is bound (to nothing that changes the state): it is not a key
		p.Args = append(p.Args, "--bind", pick(r, "result", "load", "focus")+":ignore")
	}
	if feeds > 0 && r.Chance(1, 3) {
		// jump mode is entered, more input arrives (the list is redrawn with its labels), then the label is typed
		jk := ""
		for _, b := range bound {
			if b.action == "jump" {
				jk = b.key
			}
		}
		if jk != "" {
			feeds--
			p.Events = append(p.Events, sysEvent{Kind: "keys", Keys: jk, Tag: "jump"}, sysEvent{Kind: "settle"},
				sysEvent{Kind: "feed", DelayMs: r.Intn(30)}, sysEvent{Kind: "settle"})
			ch := pick(r, "a", "s", "d", "f")
			p.Events = append(p.Events, sysEvent{Kind: "keys", Keys: ch, Tag: "char:" + ch}, sysEvent{Kind: "settle"})
		}
	}
	if !hasArg(p.Args, "--no-input") && r.Chance(1, 8) {
		// cancel while the input section is hidden makes the query the yank text; then the query is edited in
		// place and the text is yanked back
		p.Args = append(p.Args, "--bind", "f7:"+c09HiddenCancel, "--bind", "f8:beginning-of-line", "--bind", "f9:delete-char", "--bind", "f10:yank", "--bind", "f11:backward-delete-char")
		p.Events = append(p.Events, sysEvent{Kind: "keys", Keys: pick(r, "a", "b", "c"), Tag: ""})
		p.Events[len(p.Events)-1].Tag = "char:" + p.Events[len(p.Events)-1].Keys
		p.Events = append(p.Events, sysEvent{Kind: "keys", Keys: "f7", Tag: c09HiddenCancel})
		if r.Bool() {
			p.Events = append(p.Events, sysEvent{Kind: "keys", Keys: "f8", Tag: "beginning-of-line"}, sysEvent{Kind: "keys", Keys: "f9", Tag: "delete-char"})
		} else {
			p.Events = append(p.Events, sysEvent{Kind: "keys", Keys: "f11", Tag: "backward-delete-char"})
		}
		p.Events = append(p.Events, sysEvent{Kind: "keys", Keys: "f10", Tag: "yank"}, sysEvent{Kind: "settle"})
	}
	if p.Multi != 0 && r.Chance(1, 8) {
		// select-all is about the lines listed, not about how many are selected (wave 18): everything under one
		// query is selected, the query changes to one with other - and mostly fewer - results, select-all again
		p.Args = append(p.Args, "--bind", "shift-right:select-all", "--bind", "insert:change-query(b)", "--bind", "shift-left:change-query(cd)")
		ch := pick(r, "a", "e", "f")
		p.Events = append(p.Events, sysEvent{Kind: "keys", Keys: ch, Tag: "char:" + ch}, sysEvent{Kind: "settle"},
			sysEvent{Kind: "keys", Keys: "shift-right", Tag: "select-all"}, sysEvent{Kind: "settle"})
		for _, k := range []string{"insert", "shift-left"}[r.Intn(2):] {
			tag := map[string]string{"insert": "change-query(b)", "shift-left": "change-query(cd)"}[k]
			p.Events = append(p.Events, sysEvent{Kind: "keys", Keys: k, Tag: tag}, sysEvent{Kind: "settle"},
				sysEvent{Kind: "keys", Keys: "shift-right", Tag: "select-all"}, sysEvent{Kind: "settle"})
		}
	}
	nev := r.Range(1, 60)
	settleEach := !r.Chance(1, 4)
	for i := 0; i < nev; i++ {
		ev := sysEvent{Kind: "keys", DelayMs: []int{0, 1, 5, 30}[r.Intn(4)]}
		if r.Chance(1, 4) {
			ch := []rune("abcdef  -_/1éö日")[r.Intn(15)]
			ev.Keys = string(ch)
			if ch == ' ' {
				ev.Keys = "space"
			}
			ev.Tag = "char:" + string(ch)
		} else {
			b := bound[r.Intn(len(bound))]
			ev.Keys = b.key
			ev.Tag = b.action
		}
		if reloadKey != "" && r.Chance(1, 12) {
			ev.Keys, ev.Tag = reloadKey, "reload(GEN 1)"
			p.Events = append(p.Events, ev)
			if r.Bool() {
				// keys right behind the reload: they still see the old list
				for k := r.Range(1, 3); k > 0; k-- {
					b := bound[r.Intn(len(bound))]
					p.Events = append(p.Events, sysEvent{Kind: "keys", Keys: b.key, Tag: b.action, DelayMs: r.Intn(3)})
				}
				p.Events = append(p.Events, sysEvent{Kind: "settle"})
			}
			continue
		}
		p.Events = append(p.Events, ev)
		if settleEach || r.Chance(1, 5) {
			p.Events = append(p.Events, sysEvent{Kind: "settle"})
		}
		if ev.Tag == "jump" && r.Chance(2, 3) {
			// answer the prompt for a label (mostly one of the first few)
			p.Events = append(p.Events, sysEvent{Kind: "keys", Keys: string("asdfghjklq"[r.Intn(10)])}, sysEvent{Kind: "settle"})
		}
		if feeds > 0 && r.Chance(feeds, nev-i) {
			feeds--
			p.Events = append(p.Events, sysEvent{Kind: "settle"}, sysEvent{Kind: "feed", DelayMs: r.Intn(30)}, sysEvent{Kind: "settle"})
		}
	}
	for ; feeds > 0; feeds-- {
		p.Events = append(p.Events, sysEvent{Kind: "settle"}, sysEvent{Kind: "feed", DelayMs: r.Intn(30)})
	}
	p.Events = append(p.Events, sysEvent{Kind: "settle"})
	if !hasArg(p.Args, "--no-input") && r.Chance(1, 8) {
		// the query becomes the text of a line outside ASCII, is edited in place, and that line is accepted:
		// what is printed is the record, whatever was done to the query
		p.Args = append(p.Args, "--bind", "f12:replace-query", "--bind", "f8:beginning-of-line", "--bind", "f9:delete-char", "--bind", "f11:backward-delete-char", "--bind", "ctrl-]:clear-query")
		ch := pick(r, "é", "日", "ö")
		p.Events = append(p.Events, sysEvent{Kind: "keys", Keys: "ctrl-]", Tag: "clear-query"}, sysEvent{Kind: "keys", Keys: ch, Tag: "char:" + ch}, sysEvent{Kind: "settle"},
			sysEvent{Kind: "keys", Keys: "f12", Tag: "replace-query"}, sysEvent{Kind: "settle"})
		if r.Bool() {
			p.Events = append(p.Events, sysEvent{Kind: "keys", Keys: "f8", Tag: "beginning-of-line"}, sysEvent{Kind: "keys", Keys: "f9", Tag: "delete-char"})
		} else {
			p.Events = append(p.Events, sysEvent{Kind: "keys", Keys: "f11", Tag: "backward-delete-char"}, sysEvent{Kind: "keys", Keys: "f8", Tag: "beginning-of-line"}, sysEvent{Kind: "keys", Keys: "f9", Tag: "delete-char"})
		}
		p.Events = append(p.Events, sysEvent{Kind: "settle"})
	}
	if r.Chance(2, 3) {
		p.Events = append(p.Events, sysEvent{Kind: "keys", Keys: pick(r, "enter", "enter", "f5", "f6"), DelayMs: r.Intn(20)})
	}
	if r.Chance(1, 4) {
		// the clock fzf reads may be coarse: selections made by one action, or by keys in quick succession, then
		// carry the same instant
		p.ClockGrain = []int{8, 64, 100000}[r.Intn(3)]
	}
	return p
}

type c09State struct {
	model     *uiModel
	applied   int // events applied to the model
	exact     bool
	lastExact bool
	noInput   bool
	track     bool
	lines     []string
	accepted  bool
	listValid bool
	listExact bool
	syncedAt  int // number of events the model had applied at the last fully successful comparison

	reloadPending bool // reload(GEN 1) was issued; the new input takes over at the next settle
	stage         int  // input stages the model has seen written
	tail          int  // --tail
	cursorSlack   int  // offset-up/offset-down since the last comparison: the cursor may have been dragged this far
	cursorLoose   bool // the list went through states the model cannot know (trimming): any cursor inside the list is legitimate
}

// window is the range of input records the model expects fzf to hold: everything written so far,
// limited to the most recent --tail records.
func (st *c09State) window(r *sysRun) (lo, hi int) {
	hi = len(st.lines)
	if st.stage < len(r.stageLines) {
		hi = r.stageLines[st.stage]
	}
	if st.tail > 0 && hi-lo > st.tail {
		lo = hi - st.tail
	}
	return
}

func hasArg(args []string, name string) bool {
	for _, a := range args {
		if a == name {
			return true
		}
	}
	return false
}

func argValue(args []string, name string) string {
	for i := 0; i+1 < len(args); i++ {
		if args[i] == name {
			return args[i+1]
		}
	}
	return ""
}

func runC09(c *runCtx) {
	plan := &sysPlan{}
	if !c.loadPlan(plan) {
		plan = genC09Plan(c.rng)
	}
	c.plan = plan
	r := newSysRun(c, plan)
	st := &c09State{model: &uiModel{}, exact: true, listExact: true}
	m := st.model
	if plan.Multi < 0 {
		m.multi = int(maxMulti)
	} else {
		m.multi = plan.Multi
	}
	m.cycle = hasArg(plan.Args, "--cycle")
	lay := argValue(plan.Args, "--layout")
	m.reverse = lay == "reverse" || lay == "reverse-list"
	st.noInput = hasArg(plan.Args, "--no-input")
	if q := argValue(plan.Args, "--query"); q != "" {
		m.query = []rune(q)
		m.cx = len(m.query)
	}
	st.track = hasArg(plan.Args, "--track")
	st.tail = plan.Tail
	r.onSettle = func(r *sysRun, busy bool, final bool) { c09Settle(r, st, busy, final) }
	defer r.cleanup()
	r.start()
	st.lines = r.lines
	m.lineOf = func(idx int32) string {
		if int(idx) < len(st.lines) {
			return st.lines[idx]
		}
		return ""
	}
	ok := r.drive()
	if ok && !r.done {
		r.finish()
	} else {
		r.sim.Stop()
	}
	commonExitChecks(r)
	c09Exit(r, st)
	if s := r.state(); s != nil {
		c.state = fmt.Sprintf("q=%d sel=%d m=%d ev=%d", len(s.Query), len(s.Selected), len(s.Matches), len(plan.Events))
	}
}

func (st *c09State) refreshList(r *sysRun) {
	m := st.model
	lo, hi := st.window(r)
	items := make([]frozenItem, 0, hi-lo)
	for i := lo; i < hi; i++ {
		items = append(items, frozenItem{Index: int32(i), Text: st.lines[i]})
	}
	mc := r.plan.Match
	cur, had := m.current()
	hadList := st.listValid
	m.list = indicesOf(freshFilter(items, string(m.query), mc))
	st.listValid = true
	if st.track && r.plan.Match.Tac && !had && len(m.list) > 1 {
		// --track coming from an empty list attaches the cursor to Merger.First(), which under --tac without
		// sorting is the last position; which position the cursor starts from is not part of C09
		st.cursorLoose = true
	}
	if st.track && !hadList && len(m.query) > 0 && len(m.list) > 1 {
		// initial query + --track: while the input was loading the cursor followed the first item of
		// whichever partial list came first
		st.cursorLoose = true
	}
	if st.track && hadList {
		// --track: the cursor stays on the item it designated if that item is still listed
		if had {
			found := false
			for pos, idx := range m.list {
				if idx == cur {
					if pos != m.cy {
						r.c.count("probe.track_moved_cursor", 1)
					}
					m.cy, found = pos, true
					break
				}
			}
			if !found && m.cy > len(m.list) {
				// fzf tries to keep the screen row; depends on the scroll offset, which is not modelled
				st.cursorLoose = true
			}
		} else {
			// nothing was listed: fzf attaches the cursor to the first item of whichever list comes first
			m.cy = 0
			if len(m.list) > 1 {
				st.cursorLoose = true
			}
		}
	}
	if m.cy > len(m.list)-1 {
		m.cy = len(m.list) - 1
	}
	if m.cy < 0 {
		m.cy = 0
	}
}

func c09Settle(r *sysRun, st *c09State, busy bool, final bool) {
	c := r.c
	s := r.state()
	if s == nil || busy || (s.Reading && len(r.stageLines) == 0) || !r.inputAtRest() {
		c.count("settle.busy", 1)
		r.sim.Logf("c09 settle %d: busy", r.settleN)
		return
	}
	if r.t.window == nil {
		// adaptive height: the interface is not up yet (it waits for enough input); keys typed meanwhile are
		// read when it comes up, against whatever has been loaded by then
		c.count("settle.busy", 1)
		st.exact = false
		return
	}
	m := st.model
	m.pageSize = r.t.maxItems()
	// Apply the newly delivered events one at a time, refreshing the model's list (oracle filter) when the
	// query changed: cursor and selection actions refer to the list of the model's own query.
	settles := 0
	burstQueryChanged := false
	burstFed := false
	queryChanges := 0
	// the list cursor is known at the start of this burst iff the previous comparison went all the way
	cursorKnown := st.syncedAt == st.applied && st.applied > 0
	arrive := func() {
		// the new input replaces the old one: nothing stays selected, the list is the new input filtered; which
		// intermediate lists the cursor was clamped against while it loaded is timing
		st.reloadPending = false
		st.lines = genLines(r.plan.Gens[1])
		m.sel = nil
		st.listValid = false
		st.refreshList(r)
		st.cursorLoose = true
		c.count("probe.reload_modelled", 1)
	}
	for i := range r.plan.Events {
		ev := r.plan.Events[i]
		if ev.Kind == "settle" {
			if st.reloadPending && i >= st.applied {
				arrive()
			}
			settles++
			if settles >= r.settleN && !final {
				st.applied = maxInt(st.applied, i+1)
				break
			}
			if i >= st.applied {
				// a settle that was not serviced (session ended early) – cannot happen before this point
			}
			continue
		}
		if i < st.applied {
			continue
		}
		st.applied = i + 1
		if ev.Kind == "feed" {
			if st.stage < len(r.stageLines) {
				st.stage++
				lo, _ := st.window(r)
				// records trimmed by --tail are gone, and so is their selection
				kept := m.sel[:0:0]
				for _, idx := range m.sel {
					if int(idx) >= lo {
						kept = append(kept, idx)
					}
				}
				if len(kept) < len(m.sel) {
					c.count("probe.selection_trimmed_by_tail", 1)
				}
				if len(kept) > 0 {
					c.count("probe.selection_kept_across_feed", 1)
				}
				m.sel = kept
				st.refreshList(r)
				if st.tail > 0 || burstQueryChanged {
					// trimming, or a query change racing with the arrival of the input: the list went
					// through states that depend on timing, and the cursor was clamped (or, with --track,
					// attached to an item) according to them
					st.cursorLoose = true
				}
				burstFed = true
				// an action in the same burst sees whatever part of the new input had been read by then
				burstQueryChanged = true
				c.count("probe.feed_modelled", 1)
			}
			continue
		}
		if ev.Kind != "keys" {
			continue
		}
		if eventTag(r.plan, &ev) == "reload(GEN 1)" && len(r.plan.Gens) > 1 {
			if m.jumping {
				m.jumping = false // the key only answers the jump prompt (not a label: cancelled)
				continue
			}
			// the keys that follow in the same burst still act on the old list - as long as the new input cannot
			// have arrived yet (a command that takes 300 ms to say anything, keys within 100 ms); then
			// everything is replaced
			st.reloadPending = true
			slow := len(r.plan.GenProc) > 0 && len(r.plan.GenProc[0].DelaysMs) > 0 && r.plan.GenProc[0].DelaysMs[0] >= 300
			if len(genLines(r.plan.Gens[1])) == 0 {
				// a command without output has nothing to delay: it ends at once and the empty list is there
				slow = false
			}
			elapsed := 0
			for k := i + 1; k < len(r.plan.Events) && r.plan.Events[k].Kind != "settle"; k++ {
				elapsed += r.plan.Events[k].DelayMs
			}
			if !slow || elapsed > 100 {
				burstQueryChanged = true
			} else {
				c.count("probe.keys_between_reload_and_arrival", 1)
			}
			continue
		}
		tag := eventTag(r.plan, &ev)
		if tag == "nop" {
			continue
		}
		if tag == "" {
			st.exact = false
			continue
		}
		ev.Tag = tag
		if ev.Tag == "accept" || ev.Tag == "accept-or-print-query" || ev.Tag == "accept-non-empty" {
			st.accepted = true
			continue
		}
		if !st.listValid {
			st.refreshList(r)
		}
		// Within a burst (no settle in between) an action that looks at the list runs against whatever
		// list fzf had at that instant, which is legitimately unknown after a query change in the same burst.
		if !isEditAction(ev.Tag) {
			// a key delivered before the session ever came to rest (a minimised plan may lack the initial
			// settle) meets a list that is still loading
			rested := false
			for k := 0; k < i; k++ {
				if r.plan.Events[k].Kind == "settle" {
					rested = true
					break
				}
			}
			if !rested {
				st.listExact = false
				if strings.Contains(ev.Tag, "replace-query") {
					st.exact = false // which line is current is not known either
				}
			}
		}
		if burstQueryChanged && !isEditAction(ev.Tag) {
			st.listExact = false
		}
		if strings.Contains(ev.Tag, "offset-") {
			st.cursorSlack++
		} else if st.cursorSlack > 0 && !isEditAction(ev.Tag) {
			// cursor actions on top of a cursor that may have been dragged: not followed any further
			st.cursorLoose = true
		}
		if usesListCursor(ev.Tag) && (st.cursorLoose || st.cursorSlack > 0) {
			// the model has lost track of the list cursor earlier in this burst (a jump label counted from
			// an unknown scroll offset, a list that was trimmed ...): what this action selects is not known
			st.exact = false
		}
		if strings.Contains(ev.Tag, "replace-query") && (burstQueryChanged || !cursorKnown || st.cursorLoose || !st.listExact) {
			// which line is current depends on whether the list of the query just typed has arrived, or the
			// model has lost track of the list cursor (it is re-read at the next comparison)
			st.exact = false
		}
		before := string(m.query)
		if m.jumping {
			// jump mode consumes the next key whatever it is: a label that designates a visible result moves the
			// cursor there, anything else cancels; the key has no other effect
			m.jumping = false
			if strings.HasPrefix(ev.Tag, "char:") {
				if idx := strings.Index(c09JumpLabels, ev.Tag[5:]); idx >= 0 && len([]rune(ev.Tag[5:])) == 1 && idx < m.pageSize && idx < len(m.list) {
					if len(m.list) > m.pageSize {
						// the label counts from the scroll offset, which the model does not keep
						st.cursorLoose = true
					} else {
						m.cy = idx
					}
					c.count("probe.jump_taken", 1)
				}
			}
			continue
		}
		if st.noInput {
			// with --no-input every change of the query by an action is discarded
			qb := append([]rune{}, m.query...)
			if !m.apply(ev.Tag) {
				st.exact = false
			}
			m.query, m.cx = qb, len(qb)
		} else if !m.apply(ev.Tag) {
			st.exact = false
		}
		loaded := false // has the session been at rest since it started? (before that the first list may not be there)
		for k := 0; k < i; k++ {
			if r.plan.Events[k].Kind == "settle" {
				loaded = true
			}
		}
		if m.jumping && (len(m.list) == 0 || burstQueryChanged || !loaded) {
			// the renderer leaves jump mode again when it finds nothing to label; a key that follows before
			// it got there is still swallowed - only a settle in between makes the outcome definite
			if len(m.list) == 0 {
				m.jumping = false
			}
			if burstQueryChanged || !loaded || !(i+1 < len(r.plan.Events) && r.plan.Events[i+1].Kind == "settle") {
				st.exact = false
			}
		}
		if len(m.query) > 1000 {
			// a query holds at most 1000 runes: cut after all actions of the key have run
			m.query = m.query[:1000]
			c.count("probe.query_truncated", 1)
		}
		if m.cx > len(m.query) {
			m.cx = len(m.query)
		}
		if string(m.query) != before {
			st.refreshList(r)
			burstQueryChanged = true
			queryChanges++
			if burstFed || st.cursorSlack > 0 {
				// (a cursor that may have been dragged, then lists that may or may not have been seen)
				st.cursorLoose = true
			}
		}
	}
	if st.reloadPending {
		arrive()
	}
	if !st.listValid {
		st.refreshList(r)
	}
	c.count("settle.checked", 1)
	pos := fmt.Sprintf("after %d events, last action %q", st.applied, lastTag(r.plan, st.applied))
	if !st.exact {
		c.count("settle.model_inexact", 1)
		r.sim.Logf("c09 settle %d: model_inexact", r.settleN)
		return
	}
	if s.Query != string(m.query) {
		c.violate("c09.query", "%s: query is %q, reference editor holds %q", pos, s.Query, string(m.query))
		return
	}
	if s.Cx != m.cx {
		c.violate("c09.cursor_x", "%s: query cursor at %d, reference editor at %d (query %q)", pos, s.Cx, m.cx, s.Query)
		return
	}
	if s.Cx < 0 || s.Cx > len([]rune(s.Query)) {
		c.violate("c09.cursor_x", "%s: query cursor %d outside the query (length %d)", pos, s.Cx, len([]rune(s.Query)))
	}
	// invariants
	if len(s.Matches) > 0 && (s.Cy < 0 || s.Cy >= len(s.Matches)) {
		c.violate("c09.cursor_range", "%s: list cursor %d does not designate one of the %d results", pos, s.Cy, len(s.Matches))
		return
	}
	lim := r.t.multi
	if len(s.Selected) > lim {
		c.violate("c09.limit", "%s: %d items selected, limit %d", pos, len(s.Selected), lim)
	}
	if lim != m.multi {
		c.violate("c09.limit", "%s: selection limit is %d, model %d", pos, lim, m.multi)
	}
	if lo, hi := st.window(r); len(r.stageLines) > 0 && (r.fedLines() != hi || s.Count != hi-lo) {
		// the model and the producer disagree about what has been written (minimised plan), or fzf has not
		// caught up: C06 decides the latter
		c.count("settle.input_differs", 1)
		r.sim.Logf("c09 settle %d: input_differs", r.settleN)
		return
	}
	if firstDiff(s.Matches, m.list) >= 0 {
		// not C09's business (C08 decides convergence); without the same list the rest cannot be compared
		c.count("settle.list_differs", 1)
		r.sim.Logf("c09 settle %d: list_differs", r.settleN)
		if os.Getenv("VERIF_C09_LISTDIFF") != "" {
			c.violate("c09.debug_list", "%s: list %v model %v query %q", pos, s.Matches, m.list, s.Query)
		}
		return
	}
	if !st.listExact {
		c.count("settle.list_inexact", 1)
		r.sim.Logf("c09 settle %d: list_inexact", r.settleN)
		return
	}
	if firstDiff(s.Selected, m.sel) >= 0 {
		c.violate("c09.selection", "%s: selected items (in selection order) %v, model %v (limit %d, %d results)", pos, s.Selected, m.sel, m.multi, len(m.list))
		return
	}
	if st.cursorLoose && len(m.list) > 0 {
		m.cy = s.Cy
		c.count("settle.cursor_resynced", 1)
		r.sim.Logf("c09 settle %d: cursor_resynced", r.settleN)
	} else if st.cursorSlack > 0 && len(m.list) > 0 {
		if d := s.Cy - m.cy; d < -st.cursorSlack || d > st.cursorSlack {
			c.violate("c09.cursor_y", "%s: %d offset-up/offset-down action(s) moved the list cursor from %d to %d (%d results): scrolling drags the cursor by one row at most and never wraps around", pos, st.cursorSlack, m.cy, s.Cy, len(m.list))
			return
		}
		m.cy = s.Cy
		c.count("probe.offset_action_checked", 1)
	}
	st.cursorLoose = false
	st.cursorSlack = 0
	if queryChanges >= 2 && len(m.list) > 0 {
		// Several query changes without a settle in between: whether fzf ever clamped the cursor to one of
		// the intermediate (shorter) lists depends on timing. Any position inside the list is legitimate;
		// the model adopts it.
		m.cy = s.Cy
		c.count("settle.cursor_resynced", 1)
		r.sim.Logf("c09 settle %d: cursor_resynced", r.settleN)
	}
	if len(m.list) > 0 && s.Cy != m.cy {
		c.violate("c09.cursor_y", "%s: list cursor at position %d, model at %d (%d results, cycle=%v, reverse=%v, page=%d)", pos, s.Cy, m.cy, len(m.list), m.cycle, m.reverse, m.pageSize)
		return
	}
	st.syncedAt = st.applied
	if len(m.sel) > 0 || m.cy > 0 || len(m.query) > 0 {
		c.count("nontrivial", 1)
	}
	if len(m.sel) >= m.multi && m.multi > 0 {
		c.count("probe.selection_limit_reached", 1)
	}
	if len(m.list) == 0 {
		c.count("probe.empty_list", 1)
	}
}

// usesListCursor: actions whose effect on the selection or the query depends on which result is current.
func usesListCursor(tag string) bool {
	for _, a := range strings.Split(tag, "+") {
		switch a {
		case "toggle", "toggle-down", "toggle-up", "toggle-in", "toggle-out", "select", "deselect", "replace-query":
			return true
		}
	}
	return false
}

func isEditAction(tag string) bool {
	switch {
	case strings.HasPrefix(tag, "char:"), strings.HasPrefix(tag, "put"), strings.HasPrefix(tag, "change-query"), tag == "clear-query", tag == "yank",
		strings.Contains(tag, "kill"), strings.Contains(tag, "delete"), strings.Contains(tag, "rubout"), strings.Contains(tag, "discard"),
		strings.HasSuffix(tag, "-char"), strings.HasSuffix(tag, "-word"), strings.HasSuffix(tag, "-of-line"):
		return true
	}
	return false
}

func lastTag(p *sysPlan, applied int) string {
	for i := applied - 1; i >= 0 && i < len(p.Events); i-- {
		if t := eventTag(p, &p.Events[i]); t != "" {
			return t
		}
	}
	return ""
}

// eventTag derives the model-level meaning of a key event from the plan's bindings (never stored, so
// that a minimised plan cannot become inconsistent): the bound action, "char:x" for a printable key,
// "accept" for enter; "" for anything else (then the model is not exact any more).
func eventTag(p *sysPlan, ev *sysEvent) string {
	if ev.Kind != "keys" {
		return ""
	}
	f := strings.Fields(ev.Keys)
	if len(f) != 1 {
		if len(f) == 0 {
			return "nop"
		}
		return ""
	}
	k := f[0]
	if a, ok := boundActions(p.Args)[k]; ok {
		return a
	}
	if k == "enter" {
		return "accept"
	}
	if k == "space" {
		return "char: "
	}
	if _, special := keyBytes[k]; !special && len([]rune(k)) == 1 {
		return "char:" + k
	}
	return ""
}

func maxInt(a, b int) int {
	if a > b {
		return a
	}
	return b
}

// c09Exit: on accept the selection (or, if empty, the current line) is what gets printed.
func c09Exit(r *sysRun, st *c09State) {
	c := r.c
	ne := len(r.plan.Events)
	how := ""
	if ne > 0 {
		how = eventTag(r.plan, &r.plan.Events[ne-1])
	}
	if len(c.viol) > 0 || ne == 0 || (how != "accept" && how != "accept-or-print-query" && how != "accept-non-empty") || st.syncedAt != ne-1 || !st.exact || !st.listExact {
		return
	}
	if nothing := len(st.model.sel) == 0 && len(st.model.list) == 0; nothing && how != "accept" {
		// nothing to accept: accept-or-print-query prints the query line and ends the session with status 0,
		// accept-non-empty does nothing at all (the harness ends the session afterwards)
		if how == "accept-non-empty" {
			if lo, hi := st.window(r); hi-lo == 0 {
				// no input at all: the session ends like a plain accept with nothing to print
				if r.code != ExitNoMatch {
					c.violate("accept.exit_code", "accept-non-empty on an empty input: exit status %d, expected %d", r.code, ExitNoMatch)
				}
				return
			}
			if r.code != ExitInterrupt {
				c.violate("accept.exit_code", "accept-non-empty with nothing to accept: exit status %d (the session should have gone on until the harness aborted it)", r.code)
			}
			return
		}
		got, _ := splitOut(r.stdout, false)
		compareOut(c, "accept", got, []string{string(st.model.query)}, "accept-or-print-query with no selection and no result")
		if r.code != ExitOk {
			c.violate("accept.exit_code", "accept-or-print-query printed the query but the exit status is %d", r.code)
		}
		c.count("probe.print_query_checked", 1)
		return
	}
	if !r.done {
		return
	}
	if r.code != ExitOk && r.code != ExitNoMatch {
		c.violate("accept.exit_code", "exit status %d after accept", r.code)
		return
	}
	m := st.model
	var want []string
	if len(m.sel) > 0 {
		for _, idx := range m.sel {
			want = append(want, st.lines[idx])
		}
	} else if idx, ok := m.current(); ok {
		want = append(want, st.lines[idx])
	}
	wantCode := ExitOk
	if len(want) == 0 {
		wantCode = ExitNoMatch
	}
	got, terminated := splitOut(r.stdout, false)
	if !terminated {
		c.violate("accept.framing", "last printed line is not terminated")
	}
	compareOut(c, "accept", got, want, fmt.Sprintf("selection %v cursor %d of %d results", m.sel, m.cy, len(m.list)))
	if r.code != wantCode {
		c.violate("accept.exit_code", "exit status %d, expected %d (%d lines printed)", r.code, wantCode, len(want))
	}
	c.count("probe.accept_checked", 1)
}

func init() {
	scenarios["c09"] = scenario{bubble: true, run: runC09}
}
