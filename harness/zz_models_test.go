//go:build verif

package fzf

// Reference models and workload generators shared by the harnesses.

import (
	"fmt"
	"sort"
	"strings"

	"github.com/junegunn/fzf/src/algo"
	"github.com/junegunn/fzf/src/util"
	"github.com/junegunn/fzf/src/zsim"
)

// ---------------------------------------------------------------------------
// workload: lines and queries

type lineSpec struct {
	N     int      `json:"n"`
	Seed  uint64   `json:"seed"`
	Shape int      `json:"shape"`           // 0 words, 1 paths, 2 short, 3 with blanks/leading spaces
	Extra []string `json:"extra,omitempty"` // explicit lines appended after the generated ones (targeted replays)
	Trail int      `json:"trail,omitempty"` // every Trail-th generated line ends in blanks / a tab after its id
}

const lineAlphabet = "abcdef"

// genLines returns N lines; line i depends only on (Seed, Shape, i), so that
// shrinking N keeps a prefix. Every line ends in a unique " #<i>" id; queries
// never contain digits or '#'.
// hostile line material (C14): wide, combining, control, invalid, empty, very long
var hostileAtoms = []string{"日本語", "한국어", "e\u0301", "a\u0308\u0323", "\t", "\x01", "\x7f", "\xff\xfe", "\xc3", "👍", "👨\u200d👩\u200d👧", "\u200b",
	"\x1b[31m", "\x1b", "\r", "  ", "ｆｕｌｌ", "ﬁ", "\u0e01\u0e34\u0e19", "\u202e", "abc", "x", "/", "-", "#"}

func genHostileLine(r *zsim.Rng, shape int, i int) string {
	var b strings.Builder
	n := r.Intn(8)
	switch shape % 8 {
	case 5:
		if r.Chance(1, 5) {
			return ""
		}
	case 6:
		if r.Chance(1, 6) {
			n = r.Range(200, 3000)
			if r.Chance(1, 10) {
				n = r.Range(10000, 30000)
			}
		}
	}
	for k := 0; k < n; k++ {
		if shape%8 == 4 || r.Chance(1, 2) {
			b.WriteString(hostileAtoms[r.Intn(len(hostileAtoms))])
		} else {
			b.WriteByte(lineAlphabet[r.Intn(len(lineAlphabet))])
		}
		if r.Chance(1, 5) {
			b.WriteByte(' ')
		}
	}
	if shape%8 == 7 && r.Chance(1, 4) {
		b.WriteString("\nsecond line\nthird") // multi-line item (only under --read0)
	}
	return b.String()
}

func genLines(s lineSpec) []string {
	out := make([]string, 0, s.N)
	for i := 0; i < s.N; i++ {
		r := zsim.NewRng(zsim.Mix(s.Seed, uint64(i)))
		if s.Shape%8 >= 4 {
			out = append(out, genHostileLine(r, s.Shape, i))
			continue
		}
		var b strings.Builder
		words := 1 + r.Intn(4)
		switch s.Shape % 4 {
		case 2:
			words = 1
		case 3:
			if r.Chance(1, 6) {
				words = 0
			}
			if r.Chance(1, 4) {
				b.WriteString(strings.Repeat(" ", 1+r.Intn(3)))
			}
		}
		for w := 0; w < words; w++ {
			if w > 0 {
				switch s.Shape % 4 {
				case 1:
					b.WriteByte('/')
				default:
					b.WriteByte(" _-"[r.Intn(3)])
				}
			}
			l := 1 + r.Intn(5)
			for k := 0; k < l; k++ {
				c := lineAlphabet[r.Intn(len(lineAlphabet))]
				if r.Chance(1, 12) {
					c = c - 'a' + 'A'
				}
				b.WriteByte(c)
			}
		}
		fmt.Fprintf(&b, " #%d", i)
		if s.Trail > 0 && i%s.Trail == 0 {
			b.WriteString([]string{" ", "  ", "\t", " \t "}[r.Intn(4)])
		}
		out = append(out, b.String())
	}
	out = append(out, s.Extra...)
	return out
}

func genQuery(r *zsim.Rng, extended bool) string {
	word := func() string {
		l := 1 + r.Intn(3)
		if r.Chance(1, 6) {
			l = 4
		}
		var b strings.Builder
		for k := 0; k < l; k++ {
			b.WriteByte(lineAlphabet[r.Intn(len(lineAlphabet))])
		}
		return b.String()
	}
	if r.Chance(1, 10) {
		return ""
	}
	if !extended {
		return word()
	}
	nt := 1
	if r.Chance(1, 3) {
		nt = 2
	}
	var terms []string
	for i := 0; i < nt; i++ {
		w := word()
		switch r.Intn(12) {
		case 0:
			w = "'" + w
		case 1:
			w = "^" + w
		case 2:
			w = w + "$"
		case 3, 4:
			w = "!" + w
		case 5:
			w = w + " | " + word()
		}
		terms = append(terms, w)
	}
	return strings.Join(terms, " ")
}

// queryPool: a few related queries so that prefix/suffix cache narrowing,
// exact cache hits and merger-cache hits all occur.
func queryPool(r *zsim.Rng, extended bool, n int) []string {
	var pool []string
	for len(pool) < n {
		q := genQuery(r, extended)
		pool = append(pool, q)
		if q != "" && !strings.ContainsAny(q, "!'^$| ") {
			// extensions and truncations of a plain term
			pool = append(pool, q+string(lineAlphabet[r.Intn(len(lineAlphabet))]))
			if len(q) > 1 {
				pool = append(pool, q[:len(q)-1], q[1:])
			}
			if extended && r.Bool() {
				// the same plain term with a term next to it that makes the pattern one whose results are not to
				// be cached or looked up under the plain term's key (negation, anchor, alternative)
				x := string(lineAlphabet[r.Intn(len(lineAlphabet))])
				pool = append(pool, q+pick(r, " !", " ^", " | ", " '")+x)
			}
		}
	}
	return pool
}

// onlyNegated decides from the query text alone whether an extended query has
// no positive term (then results stay in input order).
func onlyNegated(q string) bool {
	pos := false
	for _, t := range strings.Fields(q) {
		if t == "|" {
			continue
		}
		if !strings.HasPrefix(t, "!") {
			pos = true
		} else if t == "!" {
			// a lone "!" has empty text and is dropped by the parser
			continue
		}
	}
	return !pos
}

// ---------------------------------------------------------------------------
// matching configuration (what core.go derives from the options)

type matchCfg struct {
	Fuzzy    bool  `json:"fuzzy"`
	AlgoV1   bool  `json:"algo_v1"`
	Extended bool  `json:"extended"`
	Case     int   `json:"case"` // 0 smart 1 ignore 2 respect
	Normal   bool  `json:"normalize"`
	Criteria []int `json:"criteria"` // after byScore
	Sort     bool  `json:"sort"`
	Tac      bool  `json:"tac"`
	Scheme   int   `json:"scheme"` // 0 default 1 path 2 history

	// forcePos: oracle computes rank keys from accurate match offsets (positions
	// always requested) instead of replicating core.go's withPos derivation
	forcePos bool
	// nth: field ranges the search is restricted to (the terminal's current --nth / change-nth value)
	nth []Range
	// delim: --delimiter (a plain string; "" = the default AWK-style fields)
	delim string
	// schemeLast: --scheme was given after --tiebreak, so the tiebreak the scheme implies is in force
	// (man page: path sets --tiebreak=pathname,length, history sets --tiebreak=index)
	schemeLast bool
}

// install sets the process-wide matching state the way option post-processing does.
func (m matchCfg) install() {
	algo.Init([]string{"default", "path", "history"}[((m.Scheme%3)+3)%3])
	sortCriteria = m.criteria()
}

func genMatchCfg(r *zsim.Rng) matchCfg {
	m := matchCfg{Fuzzy: !r.Chance(1, 5), AlgoV1: r.Chance(1, 4), Extended: !r.Chance(1, 6), Case: r.Intn(3),
		Normal: r.Bool(), Sort: !r.Chance(1, 4), Tac: r.Chance(1, 3), Scheme: []int{0, 0, 1, 2}[r.Intn(4)]}
	// tiebreak list: up to 3 distinct criteria out of chunk,length,begin,end,pathname
	perm := r.Intn(6)
	all := []criterion{byChunk, byLength, byBegin, byEnd, byPathname}
	if perm > 0 {
		k := r.Intn(4)
		used := map[criterion]bool{}
		for len(m.Criteria) < k {
			c := all[r.Intn(len(all))]
			if !used[c] {
				used[c] = true
				m.Criteria = append(m.Criteria, int(c))
			}
		}
	}
	return m
}

func (m matchCfg) criteria() []criterion {
	if m.schemeLast {
		switch ((m.Scheme % 3) + 3) % 3 {
		case 1:
			return []criterion{byScore, byPathname, byLength}
		case 2:
			return []criterion{byScore}
		}
		return []criterion{byScore, byLength}
	}
	out := []criterion{byScore}
	seen := map[int]bool{}
	for _, c := range m.Criteria {
		if c <= int(byScore) || c > int(byPathname) || seen[c] || len(out) >= 4 {
			continue
		}
		seen[c] = true
		out = append(out, criterion(c))
	}
	return out
}

// derive replicates the forward/withPos derivation of Run (core.go) — part of
// the environment the harness provides when it plays the coordinator.
func (m matchCfg) derive() (forward, withPos bool) {
	forward = true
	cr := m.criteria()
	for idx := len(cr) - 1; idx > 0; idx-- {
		switch cr[idx] {
		case byChunk:
			withPos = true
		case byEnd:
			forward = false
		case byBegin:
			forward = true
		case byPathname:
			withPos = true
			forward = false
		}
	}
	return
}

func (m matchCfg) pattern(cache *ChunkCache, pc map[string]*Pattern, rev revision, q string, cacheable bool) *Pattern {
	forward, withPos := m.derive()
	if m.forcePos {
		withPos = true
	}
	fa := algo.FuzzyMatchV2
	if m.AlgoV1 {
		fa = algo.FuzzyMatchV1
	}
	cm := []Case{CaseSmart, CaseIgnore, CaseRespect}[((m.Case%3)+3)%3]
	dl := Delimiter{}
	if m.delim != "" {
		d := m.delim
		dl = Delimiter{str: &d}
	}
	return BuildPattern(cache, pc, m.Fuzzy, fa, m.Extended, cm, m.Normal, forward, withPos, cacheable, m.nth, dl, rev, []rune(q), nil)
}

// ---------------------------------------------------------------------------
// sequential refinement oracle

type frozenItem struct {
	Index int32
	Text  string
}

type oracleRes struct {
	Index  int32
	Points [4]uint16
}

// rankLess is written independently of compareRanks: lexicographic on the
// rank fields from the most significant criterion, then input position.
func rankLess(a, b oracleRes, tac bool) bool {
	for k := 3; k >= 0; k-- {
		if a.Points[k] != b.Points[k] {
			return a.Points[k] < b.Points[k]
		}
	}
	if tac {
		return a.Index > b.Index
	}
	return a.Index < b.Index
}

// freshFilter: fresh pattern, fresh caches, fresh items, fresh scratch memory,
// one goroutine, one global sort.
func freshFilter(items []frozenItem, q string, m matchCfg) []oracleRes {
	// the reference uses the tiebreak list and scheme the plan asked for, not whatever the option parser of
	// the system under test has left in the process-wide settings
	m.install()
	pat := m.pattern(NewChunkCache(), map[string]*Pattern{}, revision{}, q, false)
	var out []oracleRes
	if pat.IsEmpty() {
		for _, it := range items {
			out = append(out, oracleRes{Index: it.Index})
		}
	} else {
		_, withPos := m.derive()
		if m.forcePos {
			withPos = true
		}
		for _, it := range items {
			item := Item{text: util.ToChars([]byte(it.Text))}
			item.text.Index = it.Index
			if res, _, _ := pat.MatchItem(&item, withPos, nil); res != nil {
				out = append(out, oracleRes{Index: it.Index, Points: res.points})
			}
		}
	}
	sorted := m.Sort && !pat.IsEmpty() && !(m.Extended && onlyNegated(q))
	if sorted {
		sort.SliceStable(out, func(i, j int) bool { return rankLess(out[i], out[j], m.Tac) })
	} else if m.Tac {
		for i, j := 0, len(out)-1; i < j; i, j = i+1, j-1 {
			out[i], out[j] = out[j], out[i]
		}
	}
	return out
}

func indicesOf(rs []oracleRes) []int32 {
	out := make([]int32, len(rs))
	for i, r := range rs {
		out[i] = r.Index
	}
	return out
}

func firstDiff(a, b []int32) int {
	n := len(a)
	if len(b) < n {
		n = len(b)
	}
	for i := 0; i < n; i++ {
		if a[i] != b[i] {
			return i
		}
	}
	if len(a) != len(b) {
		return n
	}
	return -1
}

func around(a []int32, i int) []int32 {
	lo, hi := i-3, i+4
	if lo < 0 {
		lo = 0
	}
	if hi > len(a) {
		hi = len(a)
	}
	if lo > hi {
		lo = hi
	}
	return a[lo:hi]
}

// corruptChunk is set when a chunk with an impossible item count is seen
// (reported by the scenario as a violation, never a harness panic).
var corruptChunk string

func freezeChunks(chunks []*Chunk) []frozenItem {
	var out []frozenItem
	for _, c := range chunks {
		n := c.count
		if n < 0 || n > chunkSize {
			corruptChunk = fmt.Sprintf("chunk holds count=%d (capacity %d)", n, chunkSize)
			n = clampInt(n, 0, chunkSize)
		}
		for i := 0; i < n; i++ {
			out = append(out, frozenItem{c.items[i].Index(), c.items[i].text.ToString()})
		}
	}
	return out
}
