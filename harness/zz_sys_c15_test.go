//go:build verif

package fzf

// C15: the screen shows the actual state. Structural parse of the VT grid
// (fed by the real renderer's bytes) at every settle point, compared with the
// state read at the same point. Option subset with a precisely documented
// layout: layouts default/reverse/reverse-list, info default/inline/right/
// hidden, --header and --header-lines, --multi, no borders, no preview,
// full screen, --no-scrollbar.

import (
	"fmt"
	"regexp"
	"strconv"
	"strings"
	"time"

	"github.com/junegunn/fzf/src/util"
	"github.com/junegunn/fzf/src/zsim"
	"github.com/junegunn/fzf/src/zsim/simnet"
)

var c15Binds = []struct{ key, action string }{
	{"alt-a", "up"}, {"alt-b", "down"}, {"alt-c", "first"}, {"alt-d", "last"}, {"alt-e", "toggle"},
	{"alt-f", "select-all"}, {"alt-g", "deselect-all"}, {"alt-h", "page-up"}, {"alt-i", "page-down"},
	{"alt-j", "clear-query"}, {"alt-k", "toggle-all"}, {"alt-l", "half-page-down"}, {"alt-m", "pos(4)"},
	{"alt-n", "change-query(a)"}, {"alt-o", "beginning-of-line"}, {"alt-p", "backward-char"},
	{"alt-q", "change-query(abc def abc def abc def abc def abc def abc de)"}, {"alt-r", "forward-char"}, {"alt-s", "toggle-header"},
	{"alt-t", "change-query(zzzz)"}, {"alt-u", "end-of-line"}, {"alt-v", "forward-char+forward-char+forward-char+forward-char+forward-char"},
	{"alt-w", "reload(GEN 1)"}, {"alt-x", "reload(GEN 0)"},
	// the --header text replaced by one with another number of lines (or none): every other row moves
	{"alt-3", "toggle-wrap"},
	{"alt-4", "change-query(b)"}, // as long as change-query(a): rows whose rank does not change must still be redrawn
	{"alt-y", "change-header(H1 one\nH2 two\nH3 three)"}, {"alt-z", "change-header(HX solo)"}, {"alt-1", "change-header(HA first\nHB second)"}, {"alt-2", "change-header()"},
}

const c15Header = "HDR:keys"

func genC15Plan(r *zsim.Rng) *sysPlan {
	p := &sysPlan{Match: genMatchCfg(r), Cols: r.Range(16, 90), Rows: r.Range(7, 32)}
	p.Match.Tac = false
	n := []int{0, 1, 3, r.Range(2, 12), r.Range(10, 60), r.Range(40, 200)}[r.Intn(6)]
	p.Lines = lineSpec{N: n, Seed: r.Seed53(), Shape: r.Intn(3)}
	if r.Chance(1, 2) {
		p.Multi = []int{-1, 2, 5}[r.Intn(3)]
	}
	if r.Chance(1, 3) {
		// lines kept as runes (non-ASCII, single-width letters only so that width = number of runes), longer than
		// the window: they are cut for display, at a place that moves with every resize
		for k := r.Range(1, 4); k > 0; k-- {
			var b strings.Builder
			for w := r.Range(6, 30); w > 0; w-- {
				for l := r.Range(1, 6); l > 0; l-- {
					b.WriteString(string([]rune("abcdefàéîöüß")[r.Intn(12)]))
				}
				b.WriteByte(' ')
			}
			fmt.Fprintf(&b, "#x%d", k)
			p.Lines.Extra = append(p.Lines.Extra, b.String())
			if r.Chance(1, 3) {
				// U+FFFD is a character like any other (and what every invalid byte of the input becomes)
				p.Lines.Extra = append(p.Lines.Extra, pick(r, "ab\uFFFDcd|", "\uFFFD\uFFFD x\uFFFD|", "fa\uFFFD"+strings.Repeat(" ab\uFFFD", r.Range(1, 30))+"|"))
			}
		}
	}
	if r.Chance(1, 4) {
		// double-width glyphs: as many runes as fit, twice as many columns
		for k := r.Range(1, 4); k > 0; k-- {
			var b strings.Builder
			for n := r.Range(8, 70); n > 0; n-- {
				b.WriteString(string([]rune("한국어日本語中文abc ")[r.Intn(12)]))
			}
			fmt.Fprintf(&b, " #w%d", k)
			p.Lines.Extra = append(p.Lines.Extra, b.String())
		}
	}
	p.Args = append(p.Args, "--no-scrollbar", "--no-mouse")
	p.Gens = []lineSpec{p.Lines, {N: r.Intn(4), Seed: r.Seed53(), Shape: r.Intn(3)}}
	switch r.Intn(3) {
	case 1:
		p.Args = append(p.Args, "--layout", "reverse")
	case 2:
		p.Args = append(p.Args, "--layout", "reverse-list")
	}
	switch r.Intn(5) {
	case 1:
		p.Args = append(p.Args, "--info", "inline")
	case 2:
		p.Args = append(p.Args, "--info", "hidden")
	case 3:
		p.Args = append(p.Args, "--info", "right")
	case 4:
		if r.Bool() {
			p.Args = append(p.Args, "--info", pick(r, "inline-right", "inline-right", "inline-right:< "))
			if r.Bool() {
				// many lines: the counters get several columns shorter when a query cuts the list down
				p.Lines.N = r.Range(1000, 2500)
				p.Gens[0] = p.Lines
				if p.Cols < 60 {
					p.Cols = r.Range(60, 110)
				}
			}
		}
	}
	if r.Chance(1, 5) {
		p.Args = append(p.Args, "--no-separator")
	}
	if r.Chance(1, 4) {
		// what matches "a" is at one end of the line, what matches "b" at the other, far apart
		var far []string
		for k := r.Range(1, 3); k > 0; k-- {
			far = append(far, "a "+strings.Repeat("x", r.Range(100, 200))+" b #h"+strconv.Itoa(k))
		}
		if r.Bool() {
			// ... in the first, complete chunk of 100 records (the items of complete chunks are the same objects
			// from one search to the next), with nothing else that matches either query
			p.Lines.N = 0
			p.Lines.Extra = far
			for k := r.Range(100, 160); k > 0; k-- {
				p.Lines.Extra = append(p.Lines.Extra, "zz #"+strconv.Itoa(k))
			}
		} else {
			p.Lines.Extra = append(p.Lines.Extra, far...)
		}
		p.Gens[0] = p.Lines
	}
	if r.Chance(1, 5) {
		p.Args = append(p.Args, "--ellipsis", pick(r, "", "…", ">>>", "."))
	}
	if r.Chance(1, 6) {
		p.Args = append(p.Args, "--keep-right")
	}
	if r.Chance(1, 5) {
		// tabs: expanded to the next multiple of the tab stop, wherever the line is cut (bounds only)
		for k := r.Range(1, 4); k > 0; k-- {
			var b strings.Builder
			for w := r.Range(3, 30); w > 0; w-- {
				for l := r.Range(1, 9); l > 0; l-- {
					b.WriteByte(lineAlphabet[r.Intn(len(lineAlphabet))])
				}
				b.WriteByte(" \t\t"[r.Intn(3)])
			}
			fmt.Fprintf(&b, "#t%d", k)
			p.Lines.Extra = append(p.Lines.Extra, b.String())
		}
		p.Gens[0] = p.Lines
	}
	if r.Chance(1, 7) {
		p.Args = append(p.Args, "--wrap")
		// lines longer than the window
		for k := r.Range(1, 5); k > 0; k-- {
			var b strings.Builder
			for w := r.Range(8, 40); w > 0; w-- {
				for l := r.Range(1, 7); l > 0; l-- {
					b.WriteByte(lineAlphabet[r.Intn(len(lineAlphabet))])
				}
				b.WriteByte(' ')
			}
			fmt.Fprintf(&b, "#y%d", k)
			p.Lines.Extra = append(p.Lines.Extra, b.String())
		}
		p.Gens[0] = p.Lines
		// the input a reload brings: records that take several rows where short ones were (same numbers)
		for k := r.Range(1, 4); k > 0; k-- {
			var b strings.Builder
			for w := r.Range(10, 120); w > 0; w-- {
				for l := r.Range(1, 7); l > 0; l-- {
					b.WriteByte(lineAlphabet[r.Intn(len(lineAlphabet))])
				}
				b.WriteByte(' ')
			}
			fmt.Fprintf(&b, "#z%d", k)
			p.Gens[1].Extra = append(p.Gens[1].Extra, b.String())
		}
		if r.Bool() {
			p.Gens[1].N = 0 // the tall records first
		}
	}
	if r.Chance(1, 3) {
		p.Args = append(p.Args, "--header", c15Header)
	}
	if r.Chance(1, 3) {
		p.Header = r.Range(1, 3)
	}
	if r.Chance(1, 2) {
		p.Args = append(p.Args, "--no-unicode")
	}
	if (p.Header > 0 || hasArg(p.Args, "--header")) && argValue(p.Args, "--layout") != "reverse-list" && r.Chance(1, 4) {
		// the header goes to the far side of the prompt; with many header lines in a short window the prompt
		// and the counters must still be there
		p.Args = append(p.Args, "--header-first")
		if r.Chance(1, 2) {
			p.Header = r.Range(3, 9)
			p.Rows = r.Range(7, 12)
			if p.Lines.N < p.Header+2 {
				p.Lines.N = p.Header + r.Range(2, 20)
			}
		}
	}
	for _, b := range c15Binds {

		p.Args = append(p.Args, "--bind", b.key+":"+b.action)
	}
	p.Events = append(p.Events, sysEvent{Kind: "settle"})
	for i := r.Range(1, 35); i > 0; i-- {
		ev := sysEvent{Kind: "keys", DelayMs: []int{0, 2, 20}[r.Intn(3)]}
		switch k := r.Intn(12); {
		case k < 7:
			ev.Keys = c15Binds[r.Intn(len(c15Binds))].key
		case k < 10:
			ev.Keys = string("abcdef -"[r.Intn(8)])
			if ev.Keys == " " {
				ev.Keys = "space"
			}
		case k < 11:
			ev.Keys = "bspace"
		default:
			ev = sysEvent{Kind: "resize", Cols: r.Range(14, 100), Rows: r.Range(6, 36)}
		}
		p.Events = append(p.Events, ev)
		if r.Chance(2, 3) {
			p.Events = append(p.Events, sysEvent{Kind: "settle"})
		}
	}
	if r.Chance(1, 5) {
		// jump mode ended by an action list that arrives over --listen (wave 18): the labels go, the pointer
		// comes back - whatever the list does
		p.Args = append([]string{"--listen", "localhost:6266"}, p.Args...)
		p.Args = append(p.Args, "--bind", "alt-5:jump")
		for i := r.Range(1, 3); i > 0; i-- {
			p.Events = append(p.Events, sysEvent{Kind: "keys", Keys: "alt-5"},
				sysEvent{Kind: "c15post", Keys: pick(r, "beginning-of-line", "end-of-line", "forward-char", "backward-char", "toggle-sort", "ignore", "up", "down"), DelayMs: r.Range(30, 300)},
				sysEvent{Kind: "settle"})
		}
	}
	p.Events = append(p.Events, sysEvent{Kind: "settle"})
	return p
}

var infoRe = regexp.MustCompile(`(\d+)/(\d+)(?: \((\d+)(?:/(\d+))?\))?`)

func runeWidthOf(s string) int { return len([]rune(s)) }

func c15Settle(r *sysRun, busy bool) {
	c := r.c
	st := r.state()
	if st == nil || busy || st.Reading {
		return
	}
	t := r.t
	plan := r.plan
	loaded, complete := r.loadedInput()
	if !complete {
		return
	}
	if t.jumping != jumpDisabled {
		// labels instead of the pointer column: not the layout this parser knows
		c.count("settle.jump_mode", 1)
		return
	}
	cols, rows := r.tty.Size()
	scr := r.tty.Screen()
	layout := argValue(plan.Args, "--layout")
	info := argValue(plan.Args, "--info")
	infoPrefix := "" // --info=inline-right:PREFIX: printed in front of the counters
	if strings.HasPrefix(info, "inline-right:") {
		info, infoPrefix = "inline-right", strings.TrimSpace(strings.TrimPrefix(info, "inline-right:"))
	}
	inlineInfo := info == "inline" || info == "inline-right" // the counters share the prompt row
	unicodeOn := !hasArg(plan.Args, "--no-unicode")
	pointer, marker, ellipsis := "▌", "┃", "··"
	if !unicodeOn {
		pointer, marker, ellipsis = ">", ">", ".."
	}
	if hasArg(plan.Args, "--ellipsis") {
		ellipsis = argValue(plan.Args, "--ellipsis")
	}
	if cols < 12 || rows < 5 {
		// too small for the documented layout to be meaningful (robustness at tiny sizes is C14's business)
		c.count("settle.tiny", 1)
		return
	}
	c.count("settle.checked", 1)
	where := fmt.Sprintf("layout=%q info=%q %dx%d query=%q results=%d cursor=%d offset=%d", layout, info, cols, rows, st.Query, len(st.Matches), st.Cy, st.Offset)
	dump := func() string { return "\n" + strings.Join(scr, "\n") }

	if hasArg(plan.Args, "--header-first") {
		// Where exactly the rows go when the header does not fit is not documented; what is: the prompt line
		// shows the query and the info line shows the counters - they are somewhere on the screen.
		c.count("probe.header_first", 1)
		foundPrompt, foundInfo := false, info == "hidden" || inlineInfo && runeWidthOf("> "+st.Query)+14 > cols || cols < 24 // (counters of several digits are cut in a narrow window)
		for _, row := range scr {
			if strings.HasPrefix(row+" ", "> ") {
				foundPrompt = true
			}
			if m := infoRe.FindStringSubmatch(row); m != nil && m[1] == strconv.Itoa(len(st.Matches)) && m[2] == strconv.Itoa(st.Count) {
				foundInfo = true
			}
		}
		if !foundPrompt {
			c.violate("c15.prompt", "--header-first: no prompt line on the screen (%s)%s", where, dump())
		} else if !foundInfo {
			c.violate("c15.info", "--header-first: the matched/total counters %d/%d are nowhere on the screen (%s)%s", len(st.Matches), st.Count, where, dump())
		}
		return
	}
	// --- prompt row: at the bottom (default, reverse-list) or at the top (reverse)
	promptRow := rows - 1
	if layout == "reverse" {
		promptRow = 0
	}
	pr := scr[promptRow]
	promptText := "> " + st.Query
	if runeWidthOf(promptText) < cols-1 && !inlineInfo && t.xoffset == 0 {
		if pr != strings.TrimRight(promptText, " ") {
			c.violate("c15.prompt", "prompt row shows %q, expected %q (%s)%s", pr, promptText, where, dump())
			return
		}
	} else if !strings.HasPrefix(pr+" ", "> ") {
		c.violate("c15.prompt", "prompt row %q does not start with the prompt (%s)%s", pr, where, dump())
		return
	} else if !inlineInfo {
		// The query is scrolled horizontally (fzf keeps a scroll offset of up to half the cursor position even
		// when the text would fit – a design choice, not decided here) or does not fit: the row must show one
		// contiguous piece of the query that contains the cursor, never wider than the screen.
		body := strings.TrimPrefix(pr+" ", "> ")
		body = strings.TrimRight(body, " ")
		shown := strings.TrimSuffix(strings.TrimPrefix(body, ellipsis), ellipsis)
		q := []rune(st.Query)
		pos := strings.Index(st.Query, strings.TrimRight(shown, " "))
		if pos < 0 {
			c.violate("c15.prompt", "prompt row shows %q which is not one contiguous piece of the query %q (%s)", pr, st.Query, where)
			return
		}
		if runeWidthOf(pr) > cols-1 {
			c.violate("c15.prompt", "prompt row %q is %d columns wide on a %d column screen (the last column is reserved)", pr, runeWidthOf(pr), cols)
			return
		}
		_ = q
	}
	// --- info
	wantSel := len(st.Selected)
	var infoRow = -1
	switch info {
	case "hidden":
	case "inline", "inline-right":
		infoRow = promptRow
	default:
		infoRow = promptRow - 1
		if layout == "reverse" {
			infoRow = 1
		}
	}
	if infoRow >= 0 && infoRow < rows {
		m := infoRe.FindStringSubmatch(strings.TrimPrefix(scr[infoRow], "> "+st.Query))
		if inlineInfo {
			// inline: after the query on the prompt row (if there is room)
			rest := scr[infoRow]
			if i := strings.Index(rest, st.Query); i >= 0 {
				rest = rest[i+len(st.Query):]
			}
			m = infoRe.FindStringSubmatch(rest)
			if info == "inline-right" && st.Query == "" {
				rest = strings.TrimPrefix(rest, "> ")
			}
			if info == "inline-right" && m != nil && t.xoffset == 0 && runeWidthOf("> "+st.Query)+24 < cols {
				// right-aligned counters: nothing but blanks - and the prefix, once - between the query and them
				// (no left-over of an earlier, longer text)
				if loc := infoRe.FindStringIndex(rest); loc != nil && strings.TrimSpace(rest[:loc[0]]) != infoPrefix {
					c.violate("c15.info", "prompt row %q: %q stands between the query and the counters (%s)%s", scr[infoRow], strings.TrimSpace(rest[:loc[0]]), where, dump())
					return
				}
			}
			if m == nil && runeWidthOf("> "+st.Query)+12 > cols {
				m = []string{"", strconv.Itoa(len(st.Matches)), strconv.Itoa(st.Count), "", ""}
				if wantSel > 0 {
					m[3] = strconv.Itoa(wantSel)
				}
			}
		}
		trimmedInfo0 := strings.TrimRight(scr[infoRow], " ")
		if strings.HasSuffix(trimmedInfo0, "..") || strings.HasSuffix(trimmedInfo0, ellipsis) {
			// the counters themselves are cut by the window: nothing to compare
		} else if m == nil {
			if cols >= 12 {
				c.violate("c15.info", "no matched/total counter on the info row %q (%s)%s", scr[infoRow], where, dump())
				return
			}
		} else {
			if m[1] != strconv.Itoa(len(st.Matches)) || m[2] != strconv.Itoa(st.Count) {
				c.violate("c15.info", "info row shows %s/%s, the state has %d matches of %d (%s)%s", m[1], m[2], len(st.Matches), st.Count, where, dump())
				return
			}
			gotSel := 0
			if m[3] != "" {
				gotSel, _ = strconv.Atoi(m[3])
			}
			trimmedInfo := strings.TrimRight(scr[infoRow], " ")
			truncated := strings.HasSuffix(trimmedInfo, ellipsis) || strings.HasSuffix(trimmedInfo, "..")
			if r.t.multi > 0 && gotSel != wantSel && (wantSel > 0 || m[3] != "") && !(truncated && m[3] == "") {
				c.violate("c15.info", "info row shows (%d) selected, the state has %d (%s)%s", gotSel, wantSel, where, dump())
				return
			}
		}
	}
	// --- list rows
	_ = t.maxItems
	// the --header text in force (state: change-header replaces it), one screen row per line
	hdr := t.header0
	nh := len(hdr)
	headerRows0 := 0
	if t.headerVisible {
		headerRows0 += nh
		headerRows0 += minInt(plan.Header, len(loaded))
	}
	noSep := hasArg(plan.Args, "--no-separator")
	oneRow := info == "inline" || noSep && (info == "hidden" || info == "inline-right") // nothing needs a row of its own next to the prompt
	fixed0 := 2
	if oneRow {
		fixed0 = 1 // otherwise inline-right / hidden keep the separator row below the prompt
	}
	maxItems := rows - fixed0 - headerRows0
	if maxItems <= 0 {
		return
	}
	if len(st.Matches) > 0 && (st.Cy < st.Offset || st.Cy >= st.Offset+maxItems) {
		c.violate("c15.scroll", "the current result %d is outside the visible window [%d,%d) (%s)", st.Cy, st.Offset, st.Offset+maxItems, where)
		return
	}
	// which screen rows hold the list, in which direction
	headerRows := 0
	hl := plan.Header
	if hl > len(loaded) {
		hl = len(loaded)
	}
	hlShown := hl
	if t.headerVisible {
		headerRows += nh
		headerRows += hl
	} else {
		hlShown = 0
	}
	fixed := 1 // prompt
	if !oneRow {
		fixed++ // the info row; with --info=hidden the row remains and holds the separator only
	}
	var listRows []int // screen rows of visible result k = 0,1,2…
	switch layout {
	case "reverse":
		for k := 0; k < maxItems; k++ {
			listRows = append(listRows, fixed+headerRows+k)
		}
	case "reverse-list":
		// header lines of the input stay at the very top, above the list; --header goes next to the prompt
		for k := 0; k < maxItems; k++ {
			listRows = append(listRows, hlShown+k)
		}
	default:
		for k := 0; k < maxItems; k++ {
			listRows = append(listRows, rows-1-fixed-headerRows-k)
		}
	}
	sel := map[int32]bool{}
	for _, s := range st.Selected {
		sel[s] = true
	}
	textWidth := cols - 3
	exactRows := listRows
	if t.wrap {
		// --wrap / toggle-wrap (state): a line that does not fit continues on the next row(s) behind the wrap sign. Which rows a
		// result takes is not modelled; what every row of the list must be is one contiguous piece of one of
		// the results in view - nothing left over from what the row showed before.
		exactRows = nil
		c.count("probe.wrap", 1)
		wrapSign := "↳ "
		if !unicodeOn {
			wrapSign = "> "
		}
		var cands []string
		for idx := st.Offset; idx < len(st.Matches) && idx < st.Offset+len(listRows); idx++ {
			if it := int(st.Matches[idx]) + hl; it < len(loaded) {
				cands = append(cands, loaded[it])
			}
		}
		wide := false
		for _, cand := range cands {
			if util.StringWidth(cand) != runeWidthOf(cand) {
				wide = true // double-width glyphs take two screen cells each: bounds only (as for the unwrapped rows)
			}
		}
		pointerRows := 0
		defer func() {
			// whatever rows the results take, the current one is in view: its pointer is on the screen
			if !wide && len(cands) > 0 && pointerRows == 0 && len(c.viol) == 0 {
				c.violate("c15.pointer", "--wrap: %d results in view but no row carries the pointer (%s)%s", len(cands), where, dump())
			}
		}()
		for _, row := range listRows {
			if row < 0 || row >= rows {
				continue
			}
			rs := []rune(scr[row])
			if wide {
				break
			}
			if len(rs) > 0 && string(rs[0]) == pointer {
				pointerRows++
			}
			if len(rs) > cols {
				c.violate("c15.width", "row %d is %d columns wide on a %d column screen", row, len(rs), cols)
				return
			}
			if len(rs) <= 2 {
				continue
			}
			text := strings.TrimRight(string(rs[2:]), " ")
			piece := strings.TrimPrefix(text, wrapSign)
			if text == strings.TrimRight(wrapSign, " ") {
				piece = ""
			}
			found := piece == ""
			for _, cand := range cands {
				if strings.Contains(cand, piece) || strings.Contains(cand, strings.TrimSuffix(piece, ellipsis)) {
					found = true
					break
				}
			}
			if !found {
				c.violate("c15.row_text", "--wrap: row %d shows %q, which is not a piece of any of the %d results in view (%s)%s", row, text, len(cands), where, dump())
				return
			}
			if len(cands) > 0 {
				c.count("probe.wrap_row_checked", 1)
			}
		}
	}
	for k, row := range exactRows {
		if row < 0 || row >= rows {
			continue
		}
		line := scr[row]
		idx := st.Offset + k
		if idx >= len(st.Matches) {
			if strings.TrimSpace(line) != "" {
				c.violate("c15.stale_row", "screen row %d should be empty (only %d results) but shows %q (%s)%s", row, len(st.Matches), line, where, dump())
				return
			}
			continue
		}
		item := st.Matches[idx]
		if int(item)+hl >= len(loaded) {
			c.violate("c15.row_text", "result %d refers to item %d but the loaded input has %d records after %d header lines", idx, item, len(loaded)-hl, hl)
			return
		}
		want := loaded[int(item)+hl]
		rs := []rune(line)
		for len(rs) < 2 {
			rs = append(rs, ' ')
		}
		gotPointer, gotMarker := string(rs[0]), string(rs[1])
		if (gotPointer == pointer) != (idx == st.Cy) || gotPointer != pointer && gotPointer != " " {
			c.violate("c15.pointer", "row %d (result %d, current %d): pointer column shows %q (%s)%s", row, idx, st.Cy, gotPointer, where, dump())
			return
		}
		if (gotMarker == marker) != sel[item] || gotMarker != marker && gotMarker != " " {
			c.violate("c15.marker", "row %d (result %d, item %d, selected=%v): marker column shows %q (%s)%s", row, idx, item, sel[item], gotMarker, where, dump())
			return
		}
		text := strings.TrimRight(string(rs[2:]), " ")
		if len(rs) > cols {
			c.violate("c15.width", "row %d is %d columns wide on a %d column screen", row, len(rs), cols)
			return
		}
		wantTrim := strings.TrimRight(want, " ")
		if strings.Contains(want, "\t") {
			// tabs: bounds only (the terminal counts writes past the right margin; the text keeps to its columns)
			c.count("probe.tab_row", 1)
			if runeWidthOf(text) > textWidth+1 {
				c.violate("c15.width", "row %d: the text %q of a line with tabs is %d columns wide, the window allows %d (%s)%s", row, text, runeWidthOf(text), textWidth, where, dump())
				return
			}
			continue
		}
		if dw := util.StringWidth(want); dw != runeWidthOf(want) {
			// double-width glyphs: only the bounds are decided (the row never leaves the window - the terminal
			// counts writes past the right margin - and a line that does not fit carries the ellipsis)
			c.count("probe.wide_glyph_row", 1)
			if dw > textWidth && !strings.Contains(text, ellipsis) {
				c.violate("c15.ellipsis", "row %d shows %q for the %d column line %q without an ellipsis (%s)", row, text, dw, want, where)
				return
			}
			continue
		}
		if runeWidthOf(want) <= textWidth {
			if text != wantTrim {
				c.violate("c15.row_text", "row %d should show result %d = %q completely (it fits in %d columns) but shows %q (%s)%s", row, idx, want, textWidth, text, where, dump())
				return
			}
		} else {
			if !strings.Contains(text, ellipsis) {
				c.violate("c15.ellipsis", "row %d shows %q for the %d column line %q without an ellipsis (%s)", row, text, runeWidthOf(want), want, where)
				return
			}
			core := strings.TrimSuffix(strings.TrimPrefix(text, ellipsis), ellipsis)
			if q := st.Query; len(q) == 1 && q[0] >= 'a' && q[0] <= 'z' && !hasArg(plan.Args, "--no-hscroll") &&
				len(want) == len([]rune(want)) && strings.Contains(strings.ToLower(want), q) && !strings.Contains(strings.ToLower(core), q) && len([]rune(core)) > 8 {
				// a line that does not fit is scrolled so that what matches is in view (--hscroll, the default)
				c.violate("c15.row_text", "row %d shows %q of result %d = %q for the query %q: nothing of what matches is in view (%s)%s", row, text, idx, want, q, where, dump())
				return
			}
			if !strings.Contains(want, strings.TrimRight(core, " ")) {
				c.violate("c15.row_text", "row %d shows %q which is not a piece of result %d = %q (%s)", row, text, idx, want, where)
				return
			}
			if runeWidthOf(text) > textWidth+1 {
				c.violate("c15.width", "row %d: truncated text %q is %d columns wide, window allows %d", row, text, runeWidthOf(text), textWidth)
				return
			}
		}
	}
	// --- header lines of the input: right next to the info/--header rows, in the direction of the layout;
	// rows reserved for header lines the (re)loaded input does not have are blank
	if plan.Header > 0 && t.headerVisible && layout != "reverse-list" {
		base := nh
		for j := 0; j < plan.Header; j++ {
			row := rows - 1 - fixed - base - j
			if layout == "reverse" {
				row = fixed + base + j
			}
			if row < 0 || row >= rows {
				continue
			}
			want := ""
			if j < len(loaded) {
				want = "  " + loaded[j]
			}
			got := scr[row]
			wt := strings.TrimRight(want, " ")
			if util.StringWidth(wt) != runeWidthOf(wt) {
				continue // double-width glyphs: bounds only (see the list rows)
			}
			if runeWidthOf(wt) < cols-2 {
				if got != wt {
					c.violate("c15.header_line", "screen row %d should show header line %d %q but shows %q (%s)%s", row, j, wt, got, where, dump())
					return
				}
			}
		}
	}
	// --- header rows are where the layout puts them and never among list rows: the lines of the header
	// text, top to bottom in the order given whatever the layout, next to the info row
	if nh > 0 && !t.headerVisible {
		for i, l := range scr {
			for _, h := range hdr {
				if strings.Contains(l, h) {
					c.violate("c15.header", "the header is hidden but its text %q is still on screen row %d (%s)%s", h, i, where, dump())
					return
				}
			}
		}
	}
	if nh > 0 && t.headerVisible {
		if nh > 1 {
			c.count("probe.header_multi_line", 1)
		}
		for j, h := range hdr {
			row := rows - 1 - fixed - (nh - 1) + j
			if layout == "reverse" {
				row = fixed + j
			}
			if row < 0 || row >= rows {
				continue
			}
			for _, lr := range listRows {
				if lr == row && lr < len(scr) && strings.Contains(scr[lr], h) {
					c.violate("c15.header", "the header is drawn on list row %d (%s)%s", row, where, dump())
					return
				}
			}
			if want := "  " + h; runeWidthOf(want) < cols-2 && scr[row] != want {
				c.violate("c15.header", "screen row %d should show line %d of the header, %q, but shows %q (%s)%s", row, j, want, scr[row], where, dump())
				return
			}
		}
	}
	if len(st.Matches) > 0 {
		c.count("nontrivial", 1)
	}
	if r.tty.Overflow > 0 {
		c.violate("c15.width", "the renderer wrote past the right margin %d time(s), first: %s (%s)", r.tty.Overflow, r.tty.OverflowAt, where)
	}
}

func runC15(c *runCtx) {
	plan := &sysPlan{}
	if !c.loadPlan(plan) {
		plan = genC15Plan(c.rng)
	}
	c.plan = plan
	// the scenario is about the documented layout without scrollbar and mouse: a minimised plan that has lost
	// these options gets them back
	for _, o := range []string{"--no-scrollbar", "--no-mouse"} {
		if !hasArg(plan.Args, o) {
			plan.Args = append(plan.Args, o)
		}
	}
	r := newSysRun(c, plan)
	r.onSettle = func(r *sysRun, busy bool, final bool) { c15Settle(r, busy) }
	if hasArg(plan.Args, "--listen") {
		nw := simnet.New()
		defer func() { simnet.Cur = nil }()
		sysEventHandlers["c15post"] = func(r *sysRun, ev *sysEvent) {
			conn := nw.Dial()
			if conn == nil {
				return
			}
			fmt.Fprintf(conn, "POST / HTTP/1.1\r\nHost: localhost\r\nContent-Length: %d\r\n\r\n%s", len(ev.Keys), ev.Keys)
			conn.SetReadDeadline(time.Now().Add(60 * time.Second))
			buf := make([]byte, 4096)
			for {
				if _, err := conn.Read(buf); err != nil {
					break
				}
			}
			conn.Close()
			c.count("probe.posted_action_list", 1)
		}
		defer delete(sysEventHandlers, "c15post")
	}
	defer r.cleanup()
	r.start()
	ok := r.drive()
	if ok && !r.done {
		r.finish()
	} else {
		r.sim.Stop()
	}
	commonExitChecks(r)
	c.state = fmt.Sprintf("ev=%d out=%d", len(plan.Events), r.tty.BytesOut)
}

func init() {
	scenarios["c15"] = scenario{bubble: true, run: runC15}
}
