//go:build verif

package fzf

// H-hist: the History object across sessions over one real file in the run's
// temp dir. A "restart" is a session boundary: only the file survives.

import (
	"fmt"
	"os"
	"path/filepath"
	"strconv"
	"strings"

	"github.com/junegunn/fzf/src/zsim"
)

type histStep struct {
	Op   int    `json:"op"` // 0 previous, 1 next, 2 edit (replace the input text)
	Text string `json:"text,omitempty"`
}

type histSession struct {
	Steps     []histStep `json:"steps"`
	Submit    bool       `json:"submit"`
	SizeFirst bool       `json:"size_first"`         // --history-size before --history on the command line
	SizeEnv   bool       `json:"size_env,omitempty"` // --history-size comes from $FZF_DEFAULT_OPTS, --history from the command line
	// SmallFirst > 0: `--history-size SmallFirst --history FILE --history-size MAX` (or the small one in
	// $FZF_DEFAULT_OPTS): the limit in force is the last one given; the file is named while a smaller one holds
	SmallFirst int `json:"small_first,omitempty"`
}

type histPlan struct {
	InitKind int           `json:"init_kind"` // 0 missing, 1 empty, 2 lines+newline, 3 lines without trailing newline
	Init     []string      `json:"init"`
	Max      int           `json:"max"`
	Sessions []histSession `json:"sessions"`
	// LongAt/LongLen: the initial entry number LongAt-1 is LongLen bytes long (a pasted query of an earlier
	// version, a file written by something else): a line length no reader may choke on
	LongAt  int `json:"long_at,omitempty"`
	LongLen int `json:"long_len,omitempty"`
}

func genHistPlan(r *zsim.Rng) *histPlan {
	word := func() string {
		l := 1 + r.Intn(4)
		b := make([]byte, l)
		for i := range b {
			b[i] = "abcxyz 01'^!"[r.Intn(12)]
		}
		s := strings.TrimSpace(string(b))
		if s == "" {
			s = "q"
		}
		s += strconv.Itoa(r.Intn(50))
		// a query may begin or end with blanks; the file keeps them
		switch r.Intn(8) {
		case 0:
			s = " " + s
		case 1:
			s += " "
		case 2:
			s = "  " + s + "\t"
		}
		return s
	}
	p := &histPlan{InitKind: r.Intn(4)}
	p.Max = []int{1, 2, 3, 5, 8, 1000}[r.Intn(6)]
	if p.InitKind >= 2 {
		n := r.Range(1, 12)
		for i := 0; i < n; i++ {
			p.Init = append(p.Init, word())
		}
	}
	if len(p.Init) > 0 && r.Chance(1, 8) {
		p.LongAt = 1 + r.Intn(len(p.Init))
		p.LongLen = []int{4095, 4096, 65535, 65536, 70000, 200000}[r.Intn(6)]
	}
	ns := r.Range(1, 8)
	for s := 0; s < ns; s++ {
		ses := histSession{Submit: r.Chance(3, 4), SizeFirst: r.Chance(1, 3)}
		ses.SizeEnv = !ses.SizeFirst && r.Chance(1, 5)
		if !ses.SizeFirst && !ses.SizeEnv && p.Max > 1 && r.Chance(1, 5) {
			ses.SmallFirst = 1 + r.Intn(p.Max-1)
		}
		for k := r.Intn(14); k > 0; k-- {
			st := histStep{Op: []int{0, 0, 1, 2, 0, 1, 2}[r.Intn(7)]}
			if st.Op == 2 {
				if r.Chance(1, 6) {
					st.Text = ""
				} else if len(p.Init) > 0 && r.Chance(1, 3) {
					st.Text = p.Init[len(p.Init)-1-r.Intn(minInt(len(p.Init), 3))] // exactly a stored entry
				} else {
					st.Text = word()
				}
			}
			ses.Steps = append(ses.Steps, st)
		}
		p.Sessions = append(p.Sessions, ses)
	}
	return p
}

func runHist(c *runCtx) {
	plan := &histPlan{}
	if !c.loadPlan(plan) {
		plan = genHistPlan(c.rng)
	}
	c.plan = plan
	if plan.Max < 1 {
		plan.Max = 1
	}
	dir, err := os.MkdirTemp("", "verif-hist-")
	if err != nil {
		panic("zsim: INFRA " + err.Error())
	}
	defer os.RemoveAll(dir)
	path := filepath.Join(dir, "history")
	var init []string
	for i, l := range plan.Init {
		l = strings.ReplaceAll(l, "\n", "")
		if i == plan.LongAt-1 && plan.LongLen > 0 {
			l += strings.Repeat("x", clampInt(plan.LongLen, 1, 1<<20))
			l = l[:clampInt(plan.LongLen, 1, 1<<20)]
			c.count("probe.long_entry", 1)
		}
		if l != "" {
			init = append(init, l)
		}
	}
	var fileModel []byte // nil = missing
	switch ((plan.InitKind % 4) + 4) % 4 {
	case 1:
		fileModel = []byte{}
	case 2:
		if len(init) > 0 {
			fileModel = []byte(strings.Join(init, "\n") + "\n")
		} else {
			fileModel = []byte{}
		}
	case 3:
		fileModel = []byte(strings.Join(init, "\n"))
	}
	if fileModel != nil {
		if err := os.WriteFile(path, fileModel, 0o600); err != nil {
			panic("zsim: INFRA " + err.Error())
		}
	}
	if len(init) > plan.Max {
		c.count("probe.initial_longer_than_limit", 1)
	}
	// model: entries of the file
	entries := func(b []byte) []string {
		s := strings.Trim(string(b), "\n")
		if s == "" {
			return nil
		}
		return strings.Split(s, "\n")
	}
	for si, ses := range plan.Sessions {
		args := []string{"--history", path, "--history-size", strconv.Itoa(plan.Max)}
		if ses.SizeFirst {
			args = []string{"--history-size", strconv.Itoa(plan.Max), "--history", path}
		}
		if ses.SmallFirst > 0 && ses.SmallFirst < plan.Max && !ses.SizeFirst && !ses.SizeEnv {
			args = append([]string{"--history-size", strconv.Itoa(ses.SmallFirst)}, args...)
			c.count("probe.smaller_limit_given_first", 1)
		}
		useDefaults := false
		if ses.SizeEnv && !ses.SizeFirst {
			// the limit is part of the user's defaults, the file is named by this invocation
			useDefaults = true
			args = []string{"--history", path}
			os.Unsetenv("FZF_DEFAULT_OPTS_FILE")
			os.Setenv("FZF_DEFAULT_OPTS", "--history-size="+strconv.Itoa(plan.Max))
			c.count("probe.size_from_default_opts", 1)
		}
		opts, err := ParseOptions(useDefaults, args)
		if useDefaults {
			os.Unsetenv("FZF_DEFAULT_OPTS")
		}
		if err != nil || opts.History == nil {
			c.violate("hist.open", "session %d: cannot open history: %v", si, err)
			return
		}
		h := opts.History
		if fileModel == nil {
			fileModel = []byte{} // a missing file is created empty
		}
		E := entries(fileModel)
		// the new session must load exactly the entries of the file - the most recent --history-size of them if
		// the file holds more (written by hand, by another program or under a larger limit): the statement caps
		// what a session loads, and its quantifier names initial contents longer than the limit
		if len(E) > plan.Max {
			E = E[len(E)-plan.Max:]
			c.count("probe.loaded_file_over_limit", 1)
		}
		loaded := h.lines[:len(h.lines)-1]
		if strings.Join(loaded, "\n") != strings.Join(E, "\n") || len(loaded) != len(E) {
			c.violate("hist.load", "session %d loaded %q, file holds %q", si, clipAll(loaded), clipAll(E))
			return
		}
		// navigation model
		pos := len(E)
		scratch := ""
		modified := map[int]string{}
		cur := func() string {
			if pos == len(E) {
				return scratch
			}
			if s, ok := modified[pos]; ok {
				return s
			}
			return E[pos]
		}
		store := func(s string) {
			if pos == len(E) {
				scratch = s
			} else {
				modified[pos] = s
			}
		}
		input := ""
		for ki, st := range ses.Steps {
			switch ((st.Op % 3) + 3) % 3 {
			case 0:
				h.override(input)
				got := h.previous()
				store(input)
				if pos > 0 {
					pos--
				}
				if got != cur() {
					c.violate("hist.navigate", "session %d step %d: previous() returned %q, model %q (pos %d of %d)", si, ki, clip([]byte(got)), clip([]byte(cur())), pos, len(E))
					return
				}
				input = got
				if pos == 0 {
					c.count("probe.cursor_at_oldest", 1)
				}
			case 1:
				h.override(input)
				got := h.next()
				store(input)
				if pos < len(E) {
					pos++
				}
				if got != cur() {
					c.violate("hist.navigate", "session %d step %d: next() returned %q, model %q (pos %d of %d)", si, ki, clip([]byte(got)), clip([]byte(cur())), pos, len(E))
					return
				}
				input = got
			default:
				input = strings.ReplaceAll(st.Text, "\n", "")
				c.count("probe.edit", 1)
			}
		}
		if ses.Submit {
			if err := h.append(input); err != nil {
				c.violate("hist.write", "session %d: append failed: %v", si, err)
				return
			}
			if input != "" {
				E = append(append([]string{}, E...), input)
				if len(E) > plan.Max {
					E = E[len(E)-plan.Max:]
					c.count("probe.truncated_at_limit", 1)
				}
				fileModel = []byte(strings.Join(E, "\n") + "\n")
				c.count("nontrivial", 1)
			} else {
				c.count("probe.empty_submit", 1)
			}
		}
		got, err := os.ReadFile(path)
		if err != nil {
			c.violate("hist.file", "session %d: history file unreadable: %v", si, err)
			return
		}
		if string(got) != string(fileModel) {
			c.violate("hist.file", "after session %d (submit=%v input %q, limit %d): file holds %q, expected %q", si, ses.Submit, input, plan.Max, clip(got), clip(fileModel))
			return
		}
	}
	c.state = fmt.Sprintf("sessions=%d max=%d file=%d", len(plan.Sessions), plan.Max, len(fileModel))
}

func init() {
	scenarios["hist"] = scenario{bubble: false, run: runHist}
}

func clipAll(ss []string) []string {
	out := make([]string, len(ss))
	for i, s := range ss {
		out[i] = clip([]byte(s))
	}
	return out
}
