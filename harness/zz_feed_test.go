//go:build verif

package fzf

// H-feed: the real Reader.feed against a simulated io.Reader whose results
// follow OS read() semantics only. One goroutine; the "schedule" is the
// sequence of read results (cut points, empty reads, an error at offset k).
// Oracle: reference record splitter (refSplit) over the consumed prefix.

import (
	"bytes"
	"errors"
	"fmt"
	"io"
	"sync/atomic"

	"github.com/junegunn/fzf/src/util"
	"github.com/junegunn/fzf/src/zsim"
)

type recSpec struct {
	Len  int   `json:"len"`
	Fill uint8 `json:"fill"` // content generator selector
}

type feedPlan struct {
	Read0     bool      `json:"read0"`
	Recs      []recSpec `json:"recs"`
	FinalOpen bool      `json:"final_open"` // last record has no terminator
	Reads     []int     `json:"reads"`      // bytes per read() (cycled); 0 = empty read; <0 = as much as fits
	ErrAt     int       `json:"err_at"`     // stream offset at which read() fails (−1: never)
	GiveUp    int       `json:"give_up"`    // if >0: offset at which the reader returns (0,nil) forever
	Reject    []int     `json:"reject"`     // ordinals (mod 64) for which the pusher returns false
	// EOFWithData: the read that delivers the last bytes reports the end of the stream in the same call
	// (n > 0, io.EOF) - what the io.Reader contract allows and e.g. bytes.Reader wrappers, network and
	// decompressing readers do; files and pipes report it in a call of its own
	EOFWithData bool `json:"eof_with_data,omitempty"`
}

func recBytes(spec recSpec, ordinal int, delim byte) []byte {
	b := make([]byte, spec.Len)
	x := uint32(spec.Fill)*2654435761 + uint32(ordinal)*40503 + 17
	for i := range b {
		x = x*1664525 + 1013904223
		var ch byte
		switch spec.Fill % 4 {
		case 0:
			ch = 'a' + byte((x>>24)%26)
		case 1:
			ch = byte(x >> 24) // arbitrary bytes
		case 2:
			ch = " \t\r"[int(x>>24)%3]
		default:
			ch = "0123456789abcdef/._- "[int(x>>24)%21]
		}
		if ch == delim {
			ch = '#'
		}
		b[i] = ch
	}
	// make the ordinal recoverable from short ASCII records too
	if spec.Len >= 8 && spec.Fill%4 != 1 {
		copy(b, fmt.Sprintf("%07d", ordinal%10000000))
	}
	return b
}

// refSplit is the reference record splitter: the whole oracle.
func refSplit(stream []byte, delim byte) [][]byte {
	var out [][]byte
	for len(stream) > 0 {
		i := bytes.IndexByte(stream, delim)
		if i < 0 {
			out = append(out, stream)
			break
		}
		out = append(out, stream[:i])
		stream = stream[i+1:]
	}
	return out
}

type simStream struct {
	data     []byte
	off      int
	reads    []int
	ri       int
	errAt    int
	giveUp   int
	empties  int
	maxEmpty int
	c        *runCtx
	closed   bool
	sawEOF   bool // the stream has told the reader that it is over
	sawErr   bool // the stream has failed
	eofWith  bool // report the end together with the last bytes
}

var errSimRead = errors.New("simulated read error")

func (s *simStream) Read(p []byte) (int, error) {
	if len(p) == 0 {
		return 0, nil
	}
	if s.errAt >= 0 && s.off >= s.errAt {
		s.c.count("fault.read_error", 1)
		s.sawErr = true
		return 0, errSimRead
	}
	if s.giveUp > 0 && s.off >= s.giveUp {
		s.empties++
		return 0, nil
	}
	if s.off >= len(s.data) {
		s.sawEOF = true
		return 0, io.EOF
	}
	want := -1
	if len(s.reads) > 0 {
		want = s.reads[s.ri%len(s.reads)]
		s.ri++
	}
	if want == 0 {
		s.empties++
		if s.empties < 99 {
			s.c.count("fault.empty_read", 1)
			return 0, nil
		}
		want = 1
	}
	s.empties = 0
	n := len(p)
	if want > 0 && want < n {
		n = want
	}
	if rem := len(s.data) - s.off; n > rem {
		n = rem
	}
	if s.errAt >= 0 && s.off+n > s.errAt {
		n = s.errAt - s.off
	}
	if s.giveUp > 0 && s.off+n > s.giveUp {
		n = s.giveUp - s.off
	}
	copy(p, s.data[s.off:s.off+n])
	s.off += n
	if s.eofWith && s.off >= len(s.data) && n > 0 && !(s.errAt >= 0 && s.off >= s.errAt) && !(s.giveUp > 0 && s.off >= s.giveUp) {
		s.sawEOF = true
		s.c.count("fault.eof_with_data", 1)
		return n, io.EOF
	}
	return n, nil
}

func genFeedPlan(r *zsim.Rng, big bool) *feedPlan {
	p := &feedPlan{Read0: r.Chance(1, 4), ErrAt: -1}
	nrec := 0
	switch r.Intn(6) {
	case 0:
		nrec = r.Intn(4)
	case 1, 2:
		nrec = r.Range(1, 40)
	case 3, 4:
		nrec = r.Range(20, 400)
	default:
		nrec = r.Range(200, 3000)
	}
	bigOnes := 0
	for i := 0; i < nrec; i++ {
		var l int
		switch k := r.Intn(100); {
		case k < 12:
			l = 0
		case k < 70:
			l = r.Range(1, 30)
		case k < 90:
			l = r.Range(30, 300)
		case k < 97:
			l = r.Range(300, 6000)
		default:
			if bigOnes < 3 && (big || r.Chance(1, 3)) {
				bigOnes++
				base := []int{65536, 131072, 65536 * 3, 200000, 32768}[r.Intn(5)]
				l = base + r.Range(-3, 3)
			} else {
				l = r.Range(1000, 20000)
			}
		}
		p.Recs = append(p.Recs, recSpec{Len: l, Fill: uint8(r.Intn(256))})
	}
	p.FinalOpen = r.Chance(1, 2)
	// read plan
	mode := r.Intn(8)
	nreads := r.Range(1, 40)
	for i := 0; i < nreads; i++ {
		var n int
		switch mode {
		case 0:
			n = -1
		case 1:
			n = 1
		case 2:
			n = r.Range(1, 8)
		case 3:
			n = r.Range(1, 200)
		case 4:
			n = []int{65536, 65535, 65537, 4096, 1, 131072, 2}[r.Intn(7)]
		case 5:
			n = r.Range(1, 70000)
		default:
			switch r.Intn(5) {
			case 0:
				n = -1
			case 1:
				n = 0
			case 2:
				n = r.Range(1, 4)
			case 3:
				n = r.Range(1, 3000)
			default:
				n = r.Range(1000, 70000)
			}
		}
		p.Reads = append(p.Reads, n)
	}
	total := 0
	for _, s := range p.Recs {
		total += s.Len + 1
	}
	if r.Chance(1, 6) && total > 0 {
		p.ErrAt = r.Intn(total + 1)
	} else if r.Chance(1, 25) && total > 0 {
		p.GiveUp = 1 + r.Intn(total)
	}
	if r.Chance(1, 5) {
		for i := r.Range(1, 6); i > 0; i-- {
			p.Reject = append(p.Reject, r.Intn(64))
		}
	}
	p.EOFWithData = r.Chance(1, 4)
	return p
}

func runFeed(c *runCtx) {
	plan := &feedPlan{}
	if !c.loadPlan(plan) {
		plan = genFeedPlan(c.rng, c.tier == "thorough")
	}
	c.plan = plan
	delim := byte('\n')
	if plan.Read0 {
		delim = 0
	}
	var stream []byte
	for i, s := range plan.Recs {
		if s.Len < 0 {
			s.Len = 0
		}
		stream = append(stream, recBytes(s, i, delim)...)
		if i < len(plan.Recs)-1 || !plan.FinalOpen {
			stream = append(stream, delim)
		}
	}
	src := &simStream{data: stream, reads: plan.Reads, errAt: plan.ErrAt, giveUp: plan.GiveUp, c: c, eofWith: plan.EOFWithData}
	if plan.ErrAt > len(stream) {
		src.errAt = len(stream)
	}
	reject := map[int]bool{}
	for _, k := range plan.Reject {
		reject[((k%64)+64)%64] = true
	}

	type pushed struct {
		slice []byte
		copy  []byte
	}
	var got []pushed
	anyTrue := false
	var rd *Reader
	flagWrong := ""
	rd = NewReader(func(data []byte) bool {
		// when the pusher is entered the event flag must still reflect earlier pushes only
		got = append(got, pushed{data, append([]byte(nil), data...)})
		ret := !reject[(len(got)-1)%64]
		if ret {
			anyTrue = true
		}
		return ret
	}, util.NewEventBox(), nil, plan.Read0, false)
	rd.feed(src)

	consumed := stream[:src.off]
	want := refSplit(consumed, delim)

	// probes (did the run reach the buffer-boundary cases?)
	if len(stream) > readerBufferSize {
		c.count("probe.stream_gt_read_buffer", 1)
	}
	if len(stream) > readerSlabSize {
		c.count("probe.slab_rotated", 1)
	}
	for _, s := range plan.Recs {
		if s.Len > readerSlabSize {
			c.count("probe.record_gt_slab", 1)
			break
		}
	}
	if src.ri > 3 {
		c.count("probe.multi_read", 1)
	}
	if plan.ErrAt >= 0 {
		c.count("probe.error_mid_stream", 1)
	}
	if plan.GiveUp > 0 {
		c.count("probe.give_up_after_100_empty_reads", 1)
	}
	c.count("records", len(want))
	c.count("bytes", len(consumed))

	// (0) the reader stops for a reason: end of the stream, a read error, or a source that has returned nothing
	// a hundred times in a row (the documented give-up). Anything else loses the rest of the input.
	if !src.sawEOF && !src.sawErr && !(plan.GiveUp > 0 && src.off >= src.giveUp && src.empties >= 100) {
		c.violate("feed.stopped_early", "the reader stopped after %d of %d bytes although the stream had neither ended nor failed nor stalled (%d reads)", src.off, len(stream), src.ri)
	}
	// (1) count, order, content
	if len(got) != len(want) {
		c.violate("feed.count", "pushed %d records, reference splitter gives %d (consumed %d of %d bytes; read0=%v errAt=%d)",
			len(got), len(want), src.off, len(stream), plan.Read0, plan.ErrAt)
	}
	n := len(got)
	if len(want) < n {
		n = len(want)
	}
	for i := 0; i < n; i++ {
		if !bytes.Equal(got[i].copy, want[i]) {
			c.violate("feed.content", "record %d: pushed %q want %q", i, clip(got[i].copy), clip(want[i]))
			break
		}
	}
	// (2) slices handed to the pusher must never be overwritten afterwards
	for i := range got {
		if !bytes.Equal(got[i].slice, got[i].copy) {
			c.violate("feed.alias", "record %d was overwritten after it was pushed: now %q, was %q", i, clip(got[i].slice), clip(got[i].copy))
			break
		}
	}
	// (3) event flag
	ev := util.EventType(atomic.LoadInt32(&rd.event))
	if anyTrue && ev != EvtReadNew {
		c.violate("feed.event", "pusher accepted items but reader event flag is %d", ev)
	}
	if !anyTrue && ev == EvtReadNew {
		c.violate("feed.event", "no item accepted but EvtReadNew flagged")
	}
	_ = flagWrong
	c.state = fmt.Sprintf("n=%d bytes=%d reads=%d", len(got), src.off, src.ri)
}

func clip(b []byte) string {
	if len(b) > 60 {
		return fmt.Sprintf("%s…(%d bytes)…%s", b[:30], len(b), b[len(b)-20:])
	}
	return string(b)
}

func init() {
	scenarios["feed"] = scenario{bubble: false, run: runFeed}
}
