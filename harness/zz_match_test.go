//go:build verif

package fzf

// H-match: real ChunkList, ChunkCache, Pattern, Matcher.scan / Matcher.Loop,
// Merger and EventBox; the harness plays loader(s) and coordinator inside the
// simulator. Scenarios: "scan" (C04, C05), "purity" (C05), "loop" (C13, C08).

import (
	"fmt"
	"sort"
	"strings"
	"time"

	"github.com/junegunn/fzf/src/util"
	"github.com/junegunn/fzf/src/zsim"
)

// ---------------------------------------------------------------------------

func poisonSlab(s *util.Slab, mode int, salt uint64) {
	switch mode % 4 {
	case 0: // natural residue
		return
	case 1:
		for i := range s.I16 {
			s.I16[i] = -1
		}
		for i := range s.I32 {
			s.I32[i] = -1
		}
	case 2:
		for i := range s.I16 {
			s.I16[i] = 0x7fff
		}
		for i := range s.I32 {
			s.I32[i] = 0x7fffffff
		}
	default:
		r := zsim.NewRng(salt)
		for i := range s.I16 {
			s.I16[i] = int16(r.Uint64())
		}
		for i := range s.I32 {
			s.I32[i] = int32(r.Uint64())
		}
	}
}

// buildList pushes lines through a real ChunkList (single loader, no
// concurrency) and returns it with its cache.
func buildList(lines []string) (*ChunkList, *ChunkCache) {
	cache := NewChunkCache()
	var idx int32
	cl := NewChunkList(cache, func(item *Item, data []byte) bool {
		item.text = util.ToChars(data)
		item.text.Index = idx
		idx++
		return true
	})
	for _, l := range lines {
		cl.Push([]byte(l))
	}
	return cl, cache
}

// ---------------------------------------------------------------------------
// scenario "scan": partitioning + per-partition sort + lazy merge == one global sort

type scanPlan struct {
	Lines      lineSpec `json:"lines"`
	Tail       int      `json:"tail"`
	Partitions int      `json:"partitions"`
	Match      matchCfg `json:"match"`
	Queries    []string `json:"queries"`
	Poison     int      `json:"poison"`
	Access     []int    `json:"access"`
}

func genScanPlan(r *zsim.Rng) *scanPlan {
	p := &scanPlan{Match: genMatchCfg(r), Poison: r.Intn(4)}
	var n int
	switch r.Intn(8) {
	case 0:
		n = r.Intn(3)
	case 1:
		n = r.Range(1, 100)
	case 2:
		n = 100 * r.Range(1, 5)
	case 3, 4:
		n = r.Range(100, 900)
	case 5, 6:
		n = r.Range(500, 3300)
	default:
		n = r.Range(3200, 6500)
	}
	p.Lines = lineSpec{N: n, Seed: r.Seed53(), Shape: r.Intn(4)}
	if r.Chance(2, 5) && n > 0 {
		switch r.Intn(3) {
		case 0:
			p.Tail = r.Range(1, n)
		case 1:
			p.Tail = r.Range(1, 250)
		default:
			p.Tail = n + r.Intn(50)
		}
	}
	switch r.Intn(4) {
	case 0:
		p.Partitions = 1 + r.Intn(3)
	case 1:
		p.Partitions = 32
	default:
		p.Partitions = 1 + r.Intn(32)
	}
	nq := 1 + r.Intn(3)
	p.Queries = queryPool(r, p.Match.Extended, nq)
	if len(p.Queries) > 5 {
		p.Queries = p.Queries[:5]
	}
	for i := 0; i < 6; i++ {
		p.Access = append(p.Access, r.Intn(1<<20))
	}
	return p
}

func clampInt(v, lo, hi int) int {
	if v < lo {
		return lo
	}
	if v > hi {
		return hi
	}
	return v
}

func runScan(c *runCtx) {
	plan := &scanPlan{}
	if !c.loadPlan(plan) {
		plan = genScanPlan(c.rng)
	}
	c.plan = plan
	plan.Lines.N = clampInt(plan.Lines.N, 0, 20000)
	P := clampInt(plan.Partitions, 1, 32)
	lines := genLines(plan.Lines)
	cl, cache := buildList(lines)
	tail := plan.Tail
	if tail < 0 {
		tail = 0
	}
	snapshot, count, _ := cl.Snapshot(tail)
	frozen := freezeChunks(snapshot)
	if count != len(frozen) || count != CountItems(snapshot) {
		c.violate("scan.count", "Snapshot count %d, CountItems %d, items present %d", count, CountItems(snapshot), len(frozen))
	}
	if len(snapshot) > 1 && snapshot[0].count < chunkSize {
		c.count("probe.partial_first_chunk", 1)
	}
	if len(snapshot) > 0 && snapshot[len(snapshot)-1].count < chunkSize {
		c.count("probe.partial_last_chunk", 1)
	}
	if len(snapshot) >= 32 {
		c.count("probe.ge_32_chunks", 1)
	}
	if len(snapshot) > 1 && len(snapshot) < P {
		c.count("probe.fewer_chunks_than_partitions", 1)
	}
	plan.Match.install()
	rev := revision{}
	pc := map[string]*Pattern{}
	m := NewMatcher(cache, func(r []rune) *Pattern { return plan.Match.pattern(cache, pc, rev, string(r), true) },
		plan.Match.Sort, plan.Match.Tac, util.NewEventBox(), rev)
	m.partitions = P
	m.slab = make([]*util.Slab, P)
	if plan.Poison%4 != 0 {
		for i := range m.slab {
			m.slab[i] = util.MakeSlab(slab16Size, slab32Size)
			poisonSlab(m.slab[i], plan.Poison, uint64(i)+c.seed)
		}
		c.count("fault.slab_poisoned", 1)
	}

	type scanOut struct {
		q      string
		merger *Merger
	}
	var outs []scanOut
	sim := zsim.New(c.simConfig())
	c.sim = sim
	sim.Go("ext/scan", func() {
		for _, q := range plan.Queries {
			// twice: the second scan runs with warm chunk caches and used slabs
			for k := 0; k < 2; k++ {
				pat := m.patternBuilder([]rune(q))
				mg, cancelled := scanReq(m, MatchRequest{chunks: snapshot, pattern: pat, sort: plan.Match.Sort, revision: rev})
				if cancelled || mg == nil {
					panic("zsim: INFRA scan cancelled without a reset")
				}
				outs = append(outs, scanOut{q, mg})
			}
		}
	})
	out := sim.Run(time.Second, 400000, 10*time.Minute)
	c.outcome = out.String()
	sim.Stop()
	if out != zsim.Idle {
		c.violate("scan.hang", "scan did not finish: %v parked=%v", out, sim.Parked())
		return
	}
	for _, cf := range sim.Conflicts {
		c.violate("scan.slab_shared", "%s", cf)
	}
	if len(outs) != 2*len(plan.Queries) {
		c.violate("scan.hang", "only %d of %d scans completed", len(outs), 2*len(plan.Queries))
		return
	}
	byIndex := map[int32]int{}
	for i, f := range frozen {
		byIndex[f.Index] = i
	}
	for k, o := range outs {
		want := freshFilter(frozen, o.q, plan.Match)
		mg := o.merger
		if mg.Length() != len(want) {
			c.violate("scan.length", "query %q: merger length %d, sequential filter %d (items %d, partitions %d, tail %d)", o.q, mg.Length(), len(want), len(frozen), P, tail)
			continue
		}
		n := mg.Length()
		got := make([]int32, n)
		have := make([]bool, n)
		read := func(i int) {
			r := mg.Get(i)
			got[i] = r.item.Index()
			have[i] = true
			if !mg.pass && r.points != want[i].Points && r.item.Index() == want[i].Index {
				c.violate("scan.rank_key", "query %q item %d: rank key %v from the partitioned scan (slab poison mode %d), %v in isolation", o.q, r.item.Index(), r.points, plan.Poison%4, want[i].Points)
			}
		}
		acc := 0
		if len(plan.Access) > 0 {
			acc = plan.Access[k%len(plan.Access)]
		}
		ar := zsim.NewRng(uint64(acc))
		switch acc % 5 {
		case 0: // sequential
		case 1: // reverse
			for i := n - 1; i >= 0; i-- {
				read(i)
			}
			c.count("probe.access_reverse", 1)
		case 2: // random probes first, some repeated
			for j := 0; j < 20 && n > 0; j++ {
				i := ar.Intn(n)
				read(i)
				if r2 := mg.Get(i); r2.item.Index() != got[i] {
					c.violate("scan.unstable_get", "query %q: Get(%d) returned item %d then %d", o.q, i, got[i], r2.item.Index())
				}
			}
			c.count("probe.access_random", 1)
		case 3: // First() then last
			if n > 0 {
				f := mg.First()
				wf := want[0]
				if plan.Match.Tac && !mg.sorted {
					wf = want[n-1]
				}
				if f.item.Index() != wf.Index {
					c.violate("scan.first", "query %q: First() is item %d, expected %d", o.q, f.item.Index(), wf.Index)
				}
				read(n - 1)
			}
		case 4: // FindIndex of a few items
			for j := 0; j < 5 && n > 0; j++ {
				i := ar.Intn(n)
				if fi := mg.FindIndex(want[i].Index); fi != i {
					c.violate("scan.find_index", "query %q: FindIndex(item %d) = %d, expected position %d", o.q, want[i].Index, fi, i)
				}
			}
		}
		for i := 0; i < n; i++ {
			if !have[i] {
				read(i)
			}
		}
		wi := indicesOf(want)
		if d := firstDiff(got, wi); d >= 0 {
			// classify: same multiset?
			gs := append([]int32(nil), got...)
			ws := append([]int32(nil), wi...)
			sort.Slice(gs, func(i, j int) bool { return gs[i] < gs[j] })
			sort.Slice(ws, func(i, j int) bool { return ws[i] < ws[j] })
			class := "scan.order"
			if firstDiff(gs, ws) >= 0 {
				class = "scan.set"
			}
			c.violate(class, "query %q sort=%v tac=%v criteria=%v items=%d chunks=%d partitions=%d tail=%d access=%d: first difference at position %d: got …%v… want …%v…",
				o.q, plan.Match.Sort, plan.Match.Tac, plan.Match.criteria(), len(frozen), len(snapshot), P, tail, acc%5, d, around(got, d), around(wi, d))
		}
		if n > 0 {
			c.count("nontrivial", 1)
		}
		if mg.sorted && n > 1 {
			c.count("probe.sorted_merge", 1)
		}
		if mg.pass {
			c.count("probe.pass_merger", 1)
		}
		if !mg.pass && !mg.sorted && n > 0 {
			c.count("probe.unsorted_lists", 1)
		}
	}
	// frozen copy must still equal the snapshot (items never change once read)
	now := freezeChunks(snapshot)
	for i := range frozen {
		if i >= len(now) || now[i] != frozen[i] {
			c.violate("scan.mutated", "snapshot item at position %d changed during scans", i)
			break
		}
	}
	c.state = fmt.Sprintf("n=%d chunks=%d P=%d q=%d", len(frozen), len(snapshot), P, len(plan.Queries))
}

// ---------------------------------------------------------------------------
// scenario "purity": MatchItem under adversarial slab histories == isolated evaluation

type purityPlan struct {
	Lines   lineSpec `json:"lines"`
	Match   matchCfg `json:"match"`
	Queries []string `json:"queries"`
	Workers int      `json:"workers"`
	Order   uint64   `json:"order"`
	Poison  []int    `json:"poison"`
	LongLen int      `json:"long_len"`
	// Ws > 0: every Ws-th line loses its id suffix and begins / ends with white space other than blank and tab
	// (the CR of a CRLF file, form feed, vertical tab, NEL, no-break space), and the pool gets anchored terms
	Ws int `json:"ws,omitempty"`
}

func runPurity(c *runCtx) {
	plan := &purityPlan{}
	if !c.loadPlan(plan) {
		r := c.rng
		plan.Match = genMatchCfg(r)
		plan.Lines = lineSpec{N: r.Range(1, 400), Seed: r.Seed53(), Shape: r.Intn(4)}
		plan.Queries = queryPool(r, plan.Match.Extended, 1+r.Intn(3))
		plan.Workers = 1 + r.Intn(4)
		plan.Order = r.Seed53()
		for i := 0; i < 8; i++ {
			plan.Poison = append(plan.Poison, r.Intn(4))
		}
		if r.Chance(1, 3) {
			plan.Ws = r.Range(1, 4)
			for k := 0; k < 3; k++ {
				x := string(lineAlphabet[r.Intn(len(lineAlphabet))])
				plan.Queries = append(plan.Queries, pick(r, "^"+x, x+"$", "^"+x+"$", "^"+x+" "+x+"$", "!"+x+"$", "!^"+x))
			}
		}
		if r.Chance(1, 4) {
			plan.LongLen = r.Range(200, 3000)
			if r.Chance(1, 4) {
				// beyond slab16Size/M: FuzzyMatchV2 falls back to the greedy V1
				plan.LongLen = r.Range(50000, 59000)
			}
		}
	}
	c.plan = plan
	plan.Lines.N = clampInt(plan.Lines.N, 0, 5000)
	lines := genLines(plan.Lines)
	if plan.Ws > 0 {
		wr := zsim.NewRng(plan.Order ^ 0x5753)
		ws := []string{"\r", "\f", "\v", "\r ", " \f", "\t\r", "\u0085", "\u00a0", "\n"}
		for i := range lines {
			if i%plan.Ws != 0 {
				continue
			}
			l := lines[i]
			if k := strings.LastIndex(l, " #"); k >= 0 {
				l = l[:k]
			}
			switch wr.Intn(3) {
			case 0:
				l = ws[wr.Intn(len(ws))] + l
			case 1:
				l = l + ws[wr.Intn(len(ws))]
			default:
				l = ws[wr.Intn(len(ws))] + l + ws[wr.Intn(len(ws))]
			}
			lines[i] = l
		}
		c.count("probe.unusual_white_space", 1)
	}
	if plan.LongLen > 0 {
		// a few long lines so that N*M approaches / exceeds the slab (V2 -> V1 fallback)
		lr := zsim.NewRng(plan.Order)
		for k := 0; k < 3 && len(lines) > 0; k++ {
			i := lr.Intn(len(lines))
			b := make([]byte, clampInt(plan.LongLen, 1, 60000))
			for j := range b {
				b[j] = lineAlphabet[lr.Intn(len(lineAlphabet))]
				if lr.Chance(1, 9) {
					b[j] = ' '
				}
			}
			if k%2 == 0 {
				// everything the query can match sits in a small region, followed by a long tail the ASCII
				// pre-filter trims away (only for byte-held text)
				for j := range b {
					b[j] = "xyz "[lr.Intn(4)]
				}
				lines[i] = "a_b ab e_f ef c_d cd " + lines[i] + " " + string(b)
			} else {
				lines[i] = "a_b ab " + string(b) + lines[i]
			}
		}
		c.count("probe.long_lines", 1)
	}
	plan.Match.install()
	_, withPos := plan.Match.derive()
	W := clampInt(plan.Workers, 1, 8)
	slabs := make([]*util.Slab, W)
	for i := range slabs {
		slabs[i] = util.MakeSlab(slab16Size, slab32Size)
	}
	// live items, shared across queries (lazily cached fields persist like in fzf)
	items := make([]Item, len(lines))
	for i, l := range lines {
		items[i] = Item{text: util.ToChars([]byte(l))}
		items[i].text.Index = int32(i)
	}
	or := zsim.NewRng(plan.Order)
	calls := 0
	for _, q := range plan.Queries {
		pat := plan.Match.pattern(NewChunkCache(), map[string]*Pattern{}, revision{}, q, false)
		iso := plan.Match.pattern(NewChunkCache(), map[string]*Pattern{}, revision{}, q, false)
		order := make([]int, len(items))
		for i := range order {
			order[i] = i
		}
		for i := len(order) - 1; i > 0; i-- {
			j := or.Intn(i + 1)
			order[i], order[j] = order[j], order[i]
		}
		for _, i := range order {
			w := or.Intn(W)
			mode := 0
			if len(plan.Poison) > 0 {
				mode = plan.Poison[calls%len(plan.Poison)]
			}
			if or.Chance(1, 3) {
				poisonSlab(slabs[w], mode, uint64(calls))
				if mode%4 != 0 {
					c.count("fault.slab_poisoned", 1)
				}
			}
			calls++
			r1, off1, pos1 := pat.MatchItem(&items[i], withPos, slabs[w])
			fresh := Item{text: util.ToChars([]byte(lines[i]))}
			fresh.text.Index = int32(i)
			// isolated evaluation: fresh scratch memory. nil means "allocate"; but fzf only falls back from V2 to the
			// greedy V1 for long lines when it is given a slab, so for long lines the fresh memory is a fresh slab
			var isoSlab *util.Slab
			if len(lines[i]) > 4000 {
				isoSlab = util.MakeSlab(slab16Size, slab32Size)
			}
			r2, off2, pos2 := iso.MatchItem(&fresh, withPos, isoSlab)
			if (r1 == nil) != (r2 == nil) {
				c.violate("purity.match", "query %q line %q: match=%v with reused slab (worker %d, poison %d), match=%v in isolation", q, clip([]byte(lines[i])), r1 != nil, w, mode%4, r2 != nil)
				return
			}
			if r1 == nil {
				rn := Item{text: util.RunesToChars([]rune(lines[i]))}
				rn.text.Index = int32(i)
				if r3, _, _ := iso.MatchItem(&rn, withPos, nil); r3 != nil {
					c.violate("purity.representation", "query %q line %q: no match on bytes-backed text, match on runes-backed text", q, clip([]byte(lines[i])))
					return
				}
				continue
			}
			c.count("nontrivial", 1)
			if r1.points != r2.points {
				c.violate("purity.rank_key", "query %q line %q: rank key %v with reused slab (poison %d), %v in isolation", q, clip([]byte(lines[i])), r1.points, mode%4, r2.points)
				return
			}
			if fmt.Sprint(off1) != fmt.Sprint(off2) {
				c.violate("purity.offsets", "query %q line %q: offsets %v with reused slab (poison %d), %v in isolation", q, clip([]byte(lines[i])), off1, mode%4, off2)
				return
			}
			if (pos1 == nil) != (pos2 == nil) || pos1 != nil && fmt.Sprint(*pos1) != fmt.Sprint(*pos2) {
				c.violate("purity.positions", "query %q line %q: positions differ with reused slab (poison %d)", q, clip([]byte(lines[i])), mode%4)
				return
			}
			// auxiliary differential clause (no schedule or fault in it; see DESIGN.md §6 C05):
			// the same text held as runes instead of bytes
			rn := Item{text: util.RunesToChars([]rune(lines[i]))}
			rn.text.Index = int32(i)
			r3, off3, _ := iso.MatchItem(&rn, withPos, isoSlab)
			if (r3 == nil) != (r2 == nil) || r3 != nil && (r3.points != r2.points || fmt.Sprint(off3) != fmt.Sprint(off2)) {
				c.violate("purity.representation", "query %q line %q: bytes-backed text gives %v %v, runes-backed text gives %v %v", q, clip([]byte(lines[i])), resPoints(r2), off2, resPoints(r3), off3)
				return
			}
		}
	}
	c.state = fmt.Sprintf("n=%d q=%d calls=%d", len(lines), len(plan.Queries), calls)
}

// ---------------------------------------------------------------------------
// scenario "loop": loaders + coordinator + Matcher.Loop

type loopOp struct {
	GapMs  int    `json:"gap_ms"`
	Query  string `json:"query"`
	Cancel bool   `json:"cancel"`
	Toggle bool   `json:"toggle_sort"`
	// ChangeNth: before this request the search scope changes (change-nth): the coordinator clears the
	// pattern cache and the chunk cache and bumps the minor revision
	ChangeNth bool `json:"change_nth,omitempty"`
	// Reload: before this request the input is replaced (reload): the loaders of the old input are stopped
	// and waited for, the list is cleared, ordinals restart at 0, the major revision is bumped, and new
	// loaders push the second input (the first one again plus Extra2 more lines)
	Reload bool `json:"reload,omitempty"`
}

type loopPlan struct {
	Extra2     int      `json:"extra2,omitempty"` // the input after a reload: the same lines plus this many more
	Lines      lineSpec `json:"lines"`
	Loaders    int      `json:"loaders"`
	Bursts     []int    `json:"bursts"`
	GapsMs     []int    `json:"gaps_ms"`
	Tail       int      `json:"tail"`
	Partitions int      `json:"partitions"`
	Match      matchCfg `json:"match"`
	Ops        []loopOp `json:"ops"`
	Poison     int      `json:"poison"`
}

func genLoopPlan(r *zsim.Rng) *loopPlan {
	p := &loopPlan{Match: genMatchCfg(r), Loaders: 1 + r.Intn(3), Poison: r.Intn(4)}
	var n int
	switch r.Intn(6) {
	case 0:
		n = r.Range(0, 120)
	case 1, 2:
		n = r.Range(100, 700)
	case 3, 4:
		n = r.Range(300, 1800)
	default:
		n = r.Range(1500, 4000)
	}
	p.Lines = lineSpec{N: n, Seed: r.Seed53(), Shape: r.Intn(4)}
	for i := 0; i < 6; i++ {
		p.Bursts = append(p.Bursts, []int{1, 7, 50, 100, 101, 250, 1000}[r.Intn(7)])
		p.GapsMs = append(p.GapsMs, []int{0, 0, 1, 5, 20, 80, 300}[r.Intn(7)])
	}
	if r.Chance(2, 5) {
		p.Tail = []int{1, 50, 99, 100, 101, 150, 250, 333, 1000}[r.Intn(9)]
	}
	p.Partitions = 1 + r.Intn(32)
	if r.Chance(1, 4) {
		p.Partitions = 1 + r.Intn(3)
	}
	pool := queryPool(r, p.Match.Extended, 2+r.Intn(2))
	cacheStress := r.Chance(1, 5)
	if cacheStress {
		// few full chunks, each alone in its partition, the same selective queries again and again with the
		// sort flag flipping in between: whatever a scan leaves in the chunk cache is read back by the next
		p.Lines.N = 100*r.Range(1, 8) + r.Intn(60)
		p.Partitions = r.Range(8, 32)
		p.Tail = 0
		p.Loaders = 1
		p.Bursts = []int{1000}
		p.GapsMs = []int{0}
		pool = pool[:2]
		for i := range pool {
			for len([]rune(pool[i])) < 3 {
				pool[i] += string(lineAlphabet[r.Intn(len(lineAlphabet))])
			}
		}
	}
	if !cacheStress && r.Chance(1, 8) {
		// Aimed at the first searches after a reload: the old input is completely loaded and searched, the
		// new one arrives in two pieces with a pause, the first piece as long as the old input was; the
		// same query is asked again right after the reload and again during the pause
		n := r.Range(1, 700)
		p.Lines.N = n
		p.Extra2 = r.Range(1, 300)
		p.Loaders = 1
		p.Tail = 0
		p.Bursts = []int{n, 100000}
		p.GapsMs = []int{[]int{150, 300, 600}[r.Intn(3)], 0}
		q := pool[r.Intn(len(pool))]
		p.Ops = append(p.Ops, loopOp{Query: q}, loopOp{Query: q, GapMs: 1000}, loopOp{Query: q, Reload: true, GapMs: r.Intn(3)},
			loopOp{Query: q, GapMs: []int{20, 60, 100}[r.Intn(3)]}, loopOp{Query: q, GapMs: 1500})
		return p
	}
	nops := r.Range(2, 25)
	for i := 0; i < nops; i++ {
		op := loopOp{Query: pool[r.Intn(len(pool))], Cancel: r.Chance(1, 2), Toggle: r.Chance(1, 10)}
		if !cacheStress && r.Chance(1, 25) {
			op.Reload = true
			if p.Extra2 == 0 {
				p.Extra2 = r.Intn(200)
			}
		}
		op.GapMs = []int{0, 0, 0, 1, 3, 10, 40, 120, 500}[r.Intn(9)]
		op.ChangeNth = r.Chance(1, 15)
		if cacheStress {
			op.Toggle = r.Chance(1, 3)
			op.GapMs = []int{40, 120, 500}[r.Intn(3)]
			op.ChangeNth = r.Chance(1, 4)
			if op.ChangeNth {
				op.GapMs = []int{0, 0, 1, 3}[r.Intn(4)] // while the previous search is still running
			}
		}
		p.Ops = append(p.Ops, op)
	}
	return p
}

type loopReq struct {
	seq     int
	rev     revision
	query   string
	final   bool
	sort    bool
	cancel  bool
	frozen  []frozenItem
	chunks  []*Chunk
	want    []int32
	hasWant bool
	nth     []Range
}

type loopPub struct {
	rev    revision
	final  bool
	list   []int32
	reqs   int // number of requests submitted when published
	pass   bool
	sorted bool
}

func runLoop(c *runCtx) {
	plan := &loopPlan{}
	if !c.loadPlan(plan) {
		plan = genLoopPlan(c.rng)
	}
	c.plan = plan
	plan.Lines.N = clampInt(plan.Lines.N, 0, 20000)
	corruptChunk = ""
	P := clampInt(plan.Partitions, 1, 32)
	L := clampInt(plan.Loaders, 1, 4)
	tail := plan.Tail
	if tail < 0 {
		tail = 0
	}
	lines := genLines(plan.Lines)
	plan.Match.install()

	cache := NewChunkCache()
	var idx int32
	var pushLog []string
	cl := NewChunkList(cache, func(item *Item, data []byte) bool {
		// the item builder is arbitrary code (ANSI processing, --with-nth): a legal preemption point
		zsim.Yield("item-builder")
		item.text = util.ToChars(data)
		item.text.Index = idx
		idx++
		pushLog = append(pushLog, string(data))
		return true
	})
	evb := util.NewEventBox()
	rev := revision{}
	pc := map[string]*Pattern{}
	var curNth []Range
	m := NewMatcher(cache, func(r []rune) *Pattern {
		mc := plan.Match
		mc.nth = curNth
		return mc.pattern(cache, pc, rev, string(r), true)
	}, plan.Match.Sort, plan.Match.Tac, evb, rev)
	m.partitions = P
	m.slab = make([]*util.Slab, P)
	if plan.Poison%4 != 0 {
		for i := range m.slab {
			m.slab[i] = util.MakeSlab(slab16Size, slab32Size)
			poisonSlab(m.slab[i], plan.Poison, uint64(i)+c.seed)
		}
	}

	sim := zsim.New(c.simConfig())
	c.sim = sim
	var reqs []*loopReq
	var pubs []*loopPub
	zsim.EventHook = func(box any, evt int, value any) {
		if box != any(evb) {
			return
		}
		switch util.EventType(evt) {
		case EvtSearchFin:
			mg := value.(*Merger)
			p := &loopPub{rev: mg.revision, final: mg.final, reqs: len(reqs), pass: mg.pass, sorted: mg.sorted}
			n := mg.Length()
			p.list = make([]int32, n)
			for i := 0; i < n; i++ {
				p.list[i] = mg.Get(i).item.Index()
			}
			pubs = append(pubs, p)
			sim.Logf("pub rev=%v final=%v n=%d", mg.revision, mg.final, n)
		case EvtSearchProgress:
			c.count("probe.progress_event", 1)
		}
	}
	defer func() { zsim.EventHook = nil }()

	loadersLeft := 0
	loadGen := 0
	var startLoaders func(lines []string)
	startLoaders = func(lines []string) {
		loadGen++
		gen := loadGen
		loadersLeft = L
		for j := 0; j < L; j++ {
			j := j
			sim.Go(fmt.Sprintf("ext/loader%d.%d", gen, j), func() {
				k := 0
				sent := 0
				for i := j; i < len(lines) && gen == loadGen; i += L {
					cl.Push([]byte(lines[i]))
					sent++
					b := 100
					if len(plan.Bursts) > 0 {
						b = plan.Bursts[(k+j)%len(plan.Bursts)]
					}
					if b < 1 {
						b = 1
					}
					if sent >= b {
						sent = 0
						g := 0
						if len(plan.GapsMs) > 0 {
							g = plan.GapsMs[(k+j)%len(plan.GapsMs)]
						}
						k++
						if g > 0 {
							time.Sleep(time.Duration(clampInt(g, 0, 5000)) * time.Millisecond)
							// woken by the clock, not by the scheduler: nothing shared (loadGen) is read before
							// the scheduler has let this task go on
							zsim.Yield("loader-wake")
						}
					}
				}
				zsim.Yield("loader-done")
				loadersLeft--
			})
		}
	}
	startLoaders(lines)
	curLines := lines
	snapshotBad := ""
	sortNow := plan.Match.Sort
	submit := func(q string, cancel bool) {
		cl.mutex.Lock()
		before := len(pushLog)
		cl.mutex.Unlock()
		snap, count, changed := cl.Snapshot(tail)
		cl.mutex.Lock()
		after := len(pushLog)
		pushLog := pushLog
		cl.mutex.Unlock()
		if changed {
			rev.bumpMinor()
			c.count("probe.tail_trimmed", 1)
		}
		fr := freezeChunks(snap)
		final := loadersLeft == 0
		// snapshot consistency (C06/C13): consecutive ordinals, a window of the pushed sequence
		if snapshotBad == "" {
			if count != len(fr) || count != CountItems(snap) {
				snapshotBad = fmt.Sprintf("Snapshot returned count %d, CountItems %d, items present %d", count, CountItems(snap), len(fr))
			}
			for i := range fr {
				if fr[i].Index != fr[0].Index+int32(i) {
					snapshotBad = fmt.Sprintf("snapshot ordinals not consecutive at position %d: %d after %d", i, fr[i].Index, fr[i-1].Index)
					break
				}
				if int(fr[i].Index) >= len(pushLog) || pushLog[fr[i].Index] != fr[i].Text {
					snapshotBad = fmt.Sprintf("snapshot item %d differs from the record pushed with that ordinal", fr[i].Index)
					break
				}
			}
			if len(fr) > 0 {
				last := int(fr[len(fr)-1].Index)
				if last < before-1 || last > after-1 {
					snapshotBad = fmt.Sprintf("snapshot ends at ordinal %d but %d..%d records had been pushed", last, before, after)
				}
				if tail == 0 && fr[0].Index != 0 {
					snapshotBad = fmt.Sprintf("snapshot without --tail starts at ordinal %d", fr[0].Index)
				}
				if tail > 0 {
					wantLen := last + 1
					if wantLen > tail {
						wantLen = tail
					}
					if len(fr) != wantLen {
						snapshotBad = fmt.Sprintf("--tail %d: snapshot holds %d items, last ordinal %d", tail, len(fr), last)
					}
				}
			} else if before > 0 {
				snapshotBad = fmt.Sprintf("empty snapshot although %d records had been pushed", before)
			}
		}
		r := &loopReq{seq: len(reqs), rev: rev, query: q, final: final, sort: sortNow, cancel: cancel, frozen: fr, chunks: snap, nth: curNth}
		reqs = append(reqs, r)
		sim.Logf("req %d q=%q cancel=%v final=%v n=%d rev=%v", r.seq, q, cancel, final, len(fr), rev)
		m.Reset(snap, []rune(q), cancel, final, sortNow, rev)
	}
	coordDone := false
	sim.Go("ext/coord", func() {
		lastQ := ""
		for _, op := range plan.Ops {
			if op.GapMs > 0 {
				time.Sleep(time.Duration(clampInt(op.GapMs, 0, 5000)) * time.Millisecond)
				zsim.Yield("coord-wake")
			}
			if op.Toggle {
				sortNow = !sortNow
			}
			if op.ChangeNth {
				// none -> first field -> second field -> none: what an item's cached tokens were cut for changes
				switch {
				case curNth == nil:
					curNth = []Range{newRange(1, 1)}
				case curNth[0] == newRange(1, 1):
					curNth = []Range{newRange(2, 2)}
				default:
					curNth = nil
				}
				pc = map[string]*Pattern{}
				cache.Clear()
				rev.bumpMinor()
				c.count("probe.change_nth", 1)
			}
			if op.Reload {
				// like restart() in core.go once the old reader has finished: the list is cleared, ordinals
				// restart, the major revision is bumped, a new reader starts
				loadGen++ // the old loaders stop at their next record
				for loadersLeft > 0 {
					time.Sleep(5 * time.Millisecond)
					zsim.Yield("coord-wait-old-reader")
				}
				cl.Clear()
				cl.mutex.Lock()
				idx = 0
				pushLog = nil
				cl.mutex.Unlock()
				rev.bumpMajor()
				next := append(append([]string{}, lines...), genLines(lineSpec{N: clampInt(plan.Extra2, 0, 5000), Seed: plan.Lines.Seed + 1, Shape: plan.Lines.Shape})...)
				curLines = next
				startLoaders(next)
				c.count("probe.reload", 1)
			}
			lastQ = op.Query
			submit(op.Query, op.Cancel)
		}
		// like the real coordinator: keep retrying until input has ended, then one final request
		for loadersLeft > 0 {
			time.Sleep(50 * time.Millisecond)
			zsim.Yield("coord-poll")
		}
		submit(lastQ, false)
		coordDone = true
	})
	sim.Go("ext/matcher", func() { m.Loop() })

	out := sim.Run(3*time.Second, 1500000, 30*time.Minute)
	c.outcome = out.String()
	if out != zsim.Idle || !coordDone {
		if out == zsim.OutOfSteps || out == zsim.OutOfTime {
			c.count("inconclusive", 1)
		} else {
			c.violate("loop.hang", "run did not settle: %v coordDone=%v parked=%v", out, coordDone, sim.Parked())
		}
		sim.Stop()
		return
	}
	m.Stop()
	sim.Run(time.Second, 10000, 0)
	sim.Stop()

	for _, cf := range sim.Conflicts {
		c.violate("loop.slab_shared", "%s", cf)
	}
	if corruptChunk != "" {
		c.violate("loop.chunk_corrupt", "%s (loaders %d tail %d)", corruptChunk, L, tail)
	}
	if snapshotBad != "" {
		c.violate("loop.snapshot", "%s (tail=%d loaders=%d)", snapshotBad, tail, L)
	}
	// every record pushed is in the final snapshot window
	if len(pushLog) != len(curLines) {
		c.violate("loop.lost_push", "%d records pushed, %d ordinals assigned", len(curLines), len(pushLog))
	}
	if n := len(reqs); n > 0 {
		fr := reqs[n-1].frozen
		wantLen := len(curLines)
		if tail > 0 && wantLen > tail {
			wantLen = tail
		}
		if len(fr) != wantLen || (len(fr) > 0 && int(fr[len(fr)-1].Index) != len(curLines)-1) {
			c.violate("loop.final_snapshot", "final snapshot holds %d items (last ordinal %v) but %d records were pushed (tail %d)", len(fr), lastIdx(fr), len(curLines), tail)
		}
	}
	// frozen copies still equal the live snapshot chunks: items never change after they have been read
	for _, r := range reqs {
		now := freezeChunks(r.chunks)
		bad := len(now) != len(r.frozen)
		for i := 0; !bad && i < len(now); i++ {
			bad = now[i] != r.frozen[i]
		}
		if bad {
			c.violate("loop.snapshot_mutated", "snapshot of request %d (rev %v, %d items, tail %d) changed after it was taken: now %d items", r.seq, r.rev, len(r.frozen), tail, len(now))
			break
		}
	}
	// cache audit: entries only for full chunks
	cache.mutex.Lock()
	for ch := range cache.cache {
		if !ch.IsFull() {
			c.violate("loop.cache_partial_chunk", "ChunkCache holds an entry for a chunk with %d items", ch.count)
			break
		}
	}
	cache.mutex.Unlock()

	// every published merger equals the sequential filter of the frozen input of some submitted request
	wantOf := func(r *loopReq) []int32 {
		if !r.hasWant {
			mc := plan.Match
			mc.Sort = r.sort
			mc.nth = r.nth
			r.want = indicesOf(freshFilter(r.frozen, r.query, mc))
			r.hasWant = true
		}
		return r.want
	}
	lastMatched := -1
	for pi, p := range pubs {
		// Publishes are served in request order (the mailbox only ever holds requests newer than
		// any that was taken): match each to the earliest request after the previously matched one.
		found := false
		var best *loopReq
		for k := lastMatched + 1; k < p.reqs; k++ {
			r := reqs[k]
			if r.rev != p.rev || r.final != p.final {
				continue
			}
			best = r
			if firstDiff(p.list, wantOf(r)) < 0 {
				found = true
				lastMatched = k
				break
			}
		}
		if !found {
			if best == nil {
				c.violate("loop.unrequested", "published merger #%d (rev %v final %v, %d results) corresponds to no request submitted after request %d", pi, p.rev, p.final, len(p.list), lastMatched)
			} else {
				w := wantOf(best)
				d := firstDiff(p.list, w)
				c.violate("loop.result", "published merger #%d (rev %v final %v sorted %v): %d results; sequential filter of the frozen input of request %d (query %q sort %v, %d items) gives %d; first difference at %d: got …%v… want …%v… (partitions %d tail %d loaders %d)",
					pi, p.rev, p.final, p.sorted, len(p.list), best.seq, best.query, best.sort, len(best.frozen), len(w), d, around(p.list, d), around(w, d), P, tail, L)
			}
			break
		}
		if len(p.list) > 0 {
			c.count("nontrivial", 1)
		}
	}
	if len(pubs) < len(reqs) {
		c.count("probe.requests_coalesced_or_cancelled", len(reqs)-len(pubs))
	}
	// convergence (C08 clause on the matcher loop alone): the last published merger answers the last request
	if c.param("converge", 0) == 1 && len(reqs) > 0 {
		last := reqs[len(reqs)-1]
		if len(pubs) == 0 {
			c.violate("loop.converge", "no merger published for the last request (query %q)", last.query)
		} else {
			p := pubs[len(pubs)-1]
			if p.rev != last.rev || p.final != last.final || firstDiff(p.list, wantOf(last)) >= 0 {
				c.violate("loop.converge", "after settling, the last published merger (rev %v final %v, %d results) is not the answer to the last request %d (query %q rev %v final %v, %d results)",
					p.rev, p.final, len(p.list), last.seq, last.query, last.rev, last.final, len(wantOf(last)))
			}
		}
	}
	c.state = fmt.Sprintf("n=%d reqs=%d pubs=%d", len(lines), len(reqs), len(pubs))
}

func resPoints(r *Result) any {
	if r == nil {
		return "no match"
	}
	return r.points
}

func lastIdx(fr []frozenItem) any {
	if len(fr) == 0 {
		return "none"
	}
	return fr[len(fr)-1].Index
}

func init() {
	scenarios["scan"] = scenario{bubble: true, run: runScan}
	scenarios["purity"] = scenario{bubble: false, run: runPurity}
	scenarios["loop"] = scenario{bubble: true, run: runLoop}
}
