//go:build verif

package fzf

// H-filter: the real Run() in --filter mode (option parsing, reader goroutine,
// poller, chunk list, matcher workers or the streaming path, printer) with a
// simulated stdin. Serves C04, C05, C06, C07, C13.

import (
	"errors"
	"fmt"
	"io"
	"os"
	"strconv"
	"strings"
	"sync"
	"time"
	"unicode/utf8"

	"github.com/junegunn/fzf/src/zsim"
)

// ---------------------------------------------------------------------------
// simulated stdin (a pipe as the OS would present it)

type simStdin struct {
	data     []byte
	off      int
	reads    []int
	gapsMs   []int
	ri       int
	errAt    int
	holdOpen bool // never deliver EOF: block until closed
	closed   chan struct{}
	once     sync.Once
	empties  int
	c        *runCtx
	eofSeen  bool

	// staged delivery: bytes beyond gates[stage] do not exist yet (the producer has not written them);
	// advance() makes the next stage available
	gates  []int
	stage  int
	gateCh chan struct{}
}

// limit is the number of bytes the producer has written so far.
func (s *simStdin) limit() int {
	if len(s.gates) == 0 || s.stage >= len(s.gates) {
		return len(s.data)
	}
	if g := s.gates[s.stage]; g < len(s.data) {
		return g
	}
	return len(s.data)
}

// advance lets the producer write the next stage; false if everything was written already.
func (s *simStdin) advance() bool {
	if s.stage >= len(s.gates) {
		return false
	}
	s.stage++
	if s.gateCh != nil {
		close(s.gateCh)
	}
	s.gateCh = make(chan struct{})
	return true
}

func newSimStdin(c *runCtx, data []byte, reads, gaps []int, errAt int) *simStdin {
	return &simStdin{data: data, reads: reads, gapsMs: gaps, errAt: errAt, closed: make(chan struct{}), c: c}
}

func (s *simStdin) Close() error {
	s.once.Do(func() { close(s.closed) })
	return nil
}

func (s *simStdin) isClosed() bool {
	select {
	case <-s.closed:
		return true
	default:
		return false
	}
}

func (s *simStdin) Read(p []byte) (int, error) {
	zsim.Yield("stdin.read")
	if len(p) == 0 {
		return 0, nil
	}
	gap := 0
	if len(s.gapsMs) > 0 && s.ri < 4*len(s.gapsMs) {
		// only the first reads are slow: a long dribble with pauses costs wall-clock, not insight
		gap = s.gapsMs[s.ri%len(s.gapsMs)]
	}
	if gap > 0 {
		t := time.NewTimer(time.Duration(clampInt(gap, 0, 10000)) * time.Millisecond)
		select {
		case <-s.closed:
			t.Stop()
		case <-t.C:
		}
	}
	if s.isClosed() {
		s.c.count("fault.stdin_closed_mid_stream", 1)
		return 0, os.ErrClosed
	}
	if s.errAt >= 0 && s.off >= s.errAt {
		s.c.count("fault.read_error", 1)
		return 0, errSimRead
	}
	for s.off >= s.limit() && s.stage < len(s.gates) {
		// the producer is alive but has nothing more to say yet
		if s.gateCh == nil {
			s.gateCh = make(chan struct{})
		}
		ch := s.gateCh
		select {
		case <-ch:
		case <-s.closed:
			s.c.count("fault.stdin_closed_mid_stream", 1)
			return 0, os.ErrClosed
		}
		zsim.Yield("stdin.read")
	}
	if s.off >= len(s.data) {
		if s.holdOpen {
			<-s.closed
			return 0, os.ErrClosed
		}
		s.eofSeen = true
		return 0, io.EOF
	}
	want := -1
	if len(s.reads) > 0 {
		want = s.reads[s.ri%len(s.reads)]
	}
	s.ri++
	if want == 0 {
		s.empties++
		if s.empties < 50 {
			s.c.count("fault.empty_read", 1)
			return 0, nil
		}
		want = 1
	}
	s.empties = 0
	n := len(p)
	if want > 0 && want < n {
		n = want
	}
	if rem := s.limit() - s.off; n > rem {
		n = rem
	}
	if s.errAt >= 0 && s.off+n > s.errAt {
		n = s.errAt - s.off
	}
	copy(p, s.data[s.off:s.off+n])
	s.off += n
	return n, nil
}

var _ = errors.New

// ---------------------------------------------------------------------------

type filterPlan struct {
	Lines       lineSpec `json:"lines"`
	Match       matchCfg `json:"match"`
	Query       string   `json:"query"`
	Read0       bool     `json:"read0"`
	Print0      bool     `json:"print0"`
	PrintQuery  bool     `json:"print_query"`
	Sync        bool     `json:"sync"`
	Tail        int      `json:"tail"`
	HeaderLines int      `json:"header_lines"`
	WithNth     string   `json:"with_nth"`
	Nth         string   `json:"nth"`         // --nth: search scope
	SchemeLast  bool     `json:"scheme_last"` // --scheme comes after --tiebreak on the command line: the last one wins
	Ansi        bool     `json:"ansi"`
	Decorate    int      `json:"decorate"` // every k-th line carries SGR sequences (0: none)
	FinalOpen   bool     `json:"final_open"`
	Reads       []int    `json:"reads"`
	GapsMs      []int    `json:"gaps_ms"`
	ErrAt       int      `json:"err_at"`
	NumCPU      int      `json:"num_cpu"`
	OrdProbe    int      `json:"ord_probe"` // >0: --with-nth {n}, query ^K$
	Sub         uint64   `json:"sub"`       // != 0: also run a seeded sub-list and compare (C05)
}

func genFilterPlan(r *zsim.Rng) *filterPlan {
	p := &filterPlan{Match: genMatchCfg(r), ErrAt: -1}
	var n int
	switch r.Intn(7) {
	case 0:
		n = r.Intn(4)
	case 1, 2:
		n = r.Range(1, 150)
	case 3, 4:
		n = r.Range(100, 900)
	default:
		n = r.Range(500, 3600)
	}
	p.Lines = lineSpec{N: n, Seed: r.Seed53(), Shape: r.Intn(4)}
	if r.Chance(1, 3) {
		p.Lines.Trail = r.Range(1, 5)
	}
	if r.Chance(1, 6) {
		// records that do not fit the matcher's scratch memory (2048 runes), kept as runes (non-ASCII), with
		// upper-case and accented letters: whatever a matcher does to normalise them must happen on a copy
		for k := r.Range(1, 3); k > 0; k-- {
			var b strings.Builder
			for n := r.Range(2100, 5000); n > 0; n-- {
				b.WriteString(string([]rune("ABCDEFabcdefÄÖÜéñ  _-/")[r.Intn(22)]))
			}
			p.Lines.Extra = append(p.Lines.Extra, b.String())
		}
	}
	p.SchemeLast = r.Chance(1, 5)
	if r.Chance(1, 5) {
		p.Nth = []string{"1", "2", "2..", "-1", "1,3", "..2"}[r.Intn(6)]
	}
	p.Query = genQuery(r, p.Match.Extended)
	if r.Chance(1, 3) {
		p.Query = ""
	}
	p.Read0 = r.Chance(1, 5)
	p.Print0 = r.Chance(1, 5)
	p.PrintQuery = r.Chance(1, 5)
	p.Sync = r.Chance(1, 6)
	if r.Chance(1, 3) && n > 0 {
		p.Tail = []int{1, 2, 50, 99, 100, 101, 250, n, n + 3, r.Range(1, n)}[r.Intn(10)]
	}
	if r.Chance(1, 4) {
		p.HeaderLines = []int{1, 2, 5, n, n + 2, r.Range(1, n+1)}[r.Intn(6)]
	}
	if r.Chance(1, 4) {
		p.WithNth = []string{"1", "2", "2..", "..2", "-1", "1,3", "{2} {1}", "{n}:{1..}", "1.."}[r.Intn(9)]
	}
	if r.Chance(1, 5) {
		p.Ansi = r.Bool()
		p.Decorate = 1 + r.Intn(4)
	}
	p.FinalOpen = r.Bool()
	mode := r.Intn(6)
	for i := r.Range(1, 12); i > 0; i-- {
		var k int
		switch mode {
		case 0:
			k = -1
		case 1:
			k = r.Range(1, 16)
		case 2:
			k = r.Range(1, 700)
		case 3:
			k = []int{65536, 4096, 1, 65535}[r.Intn(4)]
		default:
			k = []int{-1, 0, 1, r.Range(1, 5000), r.Range(1, 70000)}[r.Intn(5)]
		}
		p.Reads = append(p.Reads, k)
		p.GapsMs = append(p.GapsMs, []int{0, 0, 0, 1, 7, 30, 120}[r.Intn(7)])
	}
	if r.Chance(1, 10) {
		p.ErrAt = r.Intn(1 + n*12)
	}
	p.NumCPU = r.Intn(5) // 0 keep, else 8*k partitions
	if r.Chance(1, 8) && n > 0 {
		p.OrdProbe = 1 + r.Intn(n+2)
	}
	if r.Chance(1, 3) {
		p.Sub = r.Seed53() | 1
	}
	return p
}

const sgrOn, sgrOff = "\x1b[31;1m", "\x1b[0m"

// overstrike puts a struck-out character (X, backspace) in front of the first word: with --ansi it disappears.
func overstrike(line string) string {
	i := 0
	for i < len(line) && line[i] == ' ' {
		i++
	}
	if i >= len(line) {
		return line
	}
	return line[:i] + "Z\b" + line[i:]
}

// decorate wraps the first word of a line in SGR sequences.
func decorate(line string) string {
	i := 0
	for i < len(line) && line[i] == ' ' {
		i++
	}
	j := i
	for j < len(line) && line[j] != ' ' {
		j++
	}
	if j == i {
		return line
	}
	return line[:i] + sgrOn + line[i:j] + sgrOff + line[j:]
}

type filterRun struct {
	stdout   []byte
	code     int
	err      error
	consumed int
	done     bool
}

func (p *filterPlan) args(query string) []string {
	a := []string{"--filter", query}
	m := p.Match
	if !m.Sort {
		a = append(a, "--no-sort")
	}
	if m.Tac {
		a = append(a, "--tac")
	}
	tb := []string{}
	for _, c := range m.criteria()[1:] {
		tb = append(tb, map[criterion]string{byChunk: "chunk", byLength: "length", byBegin: "begin", byEnd: "end", byPathname: "pathname"}[c])
	}
	tbv := "index"
	if len(tb) > 0 {
		tbv = strings.Join(tb, ",")
	}
	if p.SchemeLast {
		a = append(a, "--tiebreak", tbv, "--scheme", []string{"default", "path", "history"}[((m.Scheme%3)+3)%3])
	} else {
		a = append(a, "--scheme", []string{"default", "path", "history"}[((m.Scheme%3)+3)%3], "--tiebreak", tbv)
	}
	if !m.Fuzzy {
		a = append(a, "--exact")
	}
	if m.AlgoV1 {
		a = append(a, "--algo", "v1")
	}
	if !m.Extended {
		a = append(a, "--no-extended")
	}
	switch ((m.Case % 3) + 3) % 3 {
	case 1:
		a = append(a, "-i")
	case 2:
		a = append(a, "+i")
	}
	if !m.Normal {
		a = append(a, "--literal")
	}
	if p.Read0 {
		a = append(a, "--read0")
	}
	if p.Print0 {
		a = append(a, "--print0")
	}
	if p.PrintQuery {
		a = append(a, "--print-query")
	}
	if p.Sync {
		a = append(a, "--sync")
	}
	if p.Nth != "" {
		a = append(a, "--nth", p.Nth)
	}
	if p.Tail > 0 {
		a = append(a, "--tail", strconv.Itoa(p.Tail))
	}
	if p.HeaderLines > 0 {
		a = append(a, "--header-lines", strconv.Itoa(p.HeaderLines))
	}
	if p.OrdProbe > 0 {
		a = append(a, "--with-nth", "{n}")
	} else if p.WithNth != "" {
		a = append(a, "--with-nth", p.WithNth)
	}
	if p.Ansi {
		a = append(a, "--ansi")
	}
	return a
}

// runFilterOnce executes Run() on the given records inside the current bubble.
func runFilterOnce(c *runCtx, sim *zsim.Sim, p *filterPlan, name string, records []string, query string) (*filterRun, *Options) {
	delim := "\n"
	if p.Read0 {
		delim = "\x00"
	}
	var sb strings.Builder
	for i, r := range records {
		sb.WriteString(r)
		if i < len(records)-1 || !p.FinalOpen {
			sb.WriteString(delim)
		}
	}
	data := []byte(sb.String())
	errAt := p.ErrAt
	if errAt > len(data) {
		errAt = len(data)
	}
	in := newSimStdin(c, data, p.Reads, p.GapsMs, errAt)
	zsim.Stdin = in
	defer func() { zsim.Stdin = nil }()
	if p.NumCPU > 0 {
		zsim.Knobs.NumCPU = clampInt(p.NumCPU, 1, 4)
	} else {
		zsim.Knobs.NumCPU = 0
	}
	opts, err := ParseOptions(false, p.args(query))
	if err != nil {
		panic("zsim: INFRA option parsing failed: " + err.Error() + " " + fmt.Sprint(p.args(query)))
	}
	tmp, err := os.CreateTemp("", "verif-stdout-")
	if err != nil {
		panic("zsim: INFRA " + err.Error())
	}
	defer os.Remove(tmp.Name())
	realStdout := os.Stdout
	os.Stdout = tmp
	fr := &filterRun{}
	sim.Go(name, func() {
		fr.code, fr.err = Run(opts)
		fr.done = true
	})
	out := sim.Run(2*time.Second, 3000000, 2*time.Hour)
	os.Stdout = realStdout
	c.outcome = out.String()
	tmp.Close()
	fr.stdout, _ = os.ReadFile(tmp.Name())
	fr.consumed = in.off
	if !fr.done {
		if out == zsim.Idle {
			c.violate("filter.hang", "Run() in filter mode did not return (args %v); parked=%v", p.args(query), sim.Parked())
		} else {
			c.count("inconclusive", 1)
		}
		return nil, opts
	}
	return fr, opts
}

// expectFilter is the framing/order model of filter mode.
func expectFilter(c *runCtx, p *filterPlan, opts *Options, records []string, consumed int, query string, accuratePos bool) (lines []string, code int) {
	// what the reference splitter says was delivered
	delim := byte('\n')
	if p.Read0 {
		delim = 0
	}
	var sb strings.Builder
	for i, r := range records {
		sb.WriteString(r)
		if i < len(records)-1 || !p.FinalOpen {
			sb.WriteByte(delim)
		}
	}
	stream := []byte(sb.String())
	var recs []string
	for _, b := range refSplit(stream[:consumed], delim) {
		recs = append(recs, string(b))
	}
	h := p.HeaderLines
	if h > len(recs) {
		h = len(recs)
	}
	recs = recs[h:]
	// display text per item
	var tr func([]Token, int32) string
	if opts.WithNth != nil {
		tr = opts.WithNth(opts.Delimiter)
	}
	items := make([]frozenItem, len(recs))
	orig := make([]string, len(recs))
	for i, r := range recs {
		disp := r
		if tr != nil {
			disp = tr(Tokenize(r, opts.Delimiter), int32(i))
		}
		if p.Ansi {
			disp = strings.ReplaceAll(strings.ReplaceAll(disp, sgrOn, ""), sgrOff, "")
			disp = strings.ReplaceAll(disp, "\x1b[m", "")
			disp = strings.ReplaceAll(disp, "Z\b", "")
		}
		if tr != nil {
			disp = strings.TrimRight(disp, " \t\n\r\v\f")
		}
		items[i] = frozenItem{Index: int32(i), Text: disp}
		orig[i] = r
		if p.Ansi {
			orig[i] = strings.ReplaceAll(strings.ReplaceAll(strings.ReplaceAll(r, sgrOn, ""), sgrOff, ""), "Z\b", "")
		}
	}
	if p.Tail > 0 && len(items) > p.Tail {
		items = items[len(items)-p.Tail:]
		c.count("probe.tail_trimmed", 1)
	}
	mc := p.Match
	mc.forcePos = accuratePos
	mc.schemeLast = p.SchemeLast
	mc.nth = opts.Nth
	if len(mc.nth) > 0 {
		c.count("probe.nth_scope", 1)
	}
	res := freshFilter(items, query, mc)
	if p.PrintQuery {
		lines = append(lines, query)
	}
	for _, r := range res {
		lines = append(lines, orig[r.Index])
	}
	code = ExitNoMatch
	if len(res) > 0 {
		code = ExitOk
	}
	return
}

func splitOut(out []byte, print0 bool) ([]string, bool) {
	sep := "\n"
	if print0 {
		sep = "\x00"
	}
	s := string(out)
	if s == "" {
		return nil, true
	}
	if !strings.HasSuffix(s, sep) {
		return strings.Split(s, sep), false
	}
	return strings.Split(strings.TrimSuffix(s, sep), sep), true
}

func runFilter(c *runCtx) {
	plan := &filterPlan{}
	if !c.loadPlan(plan) {
		plan = genFilterPlan(c.rng)
	}
	c.plan = plan
	plan.Lines.N = clampInt(plan.Lines.N, 0, 20000)
	lines := genLines(plan.Lines)
	for _, l := range lines {
		if !utf8.ValidString(l) || len(l) != len([]rune(l)) {
			// a read error could cut a record in the middle of a multi-byte character: C07 speaks of valid UTF-8
			plan.ErrAt = -1
			break
		}
	}
	if plan.Decorate > 0 {
		// a read error could cut a record in the middle of an escape sequence; what --ansi does
		// with a partial sequence is outside the generator-known cases (C11 is not decided here)
		plan.ErrAt = -1
	}
	if plan.Decorate > 0 {
		for i := range lines {
			if i%plan.Decorate == 0 {
				if plan.Ansi && i%(2*plan.Decorate) == 0 {
					lines[i] = overstrike(lines[i])
				} else {
					lines[i] = decorate(lines[i])
				}
			}
		}
	}
	query := plan.Query
	if plan.OrdProbe > 0 {
		query = "^" + strconv.Itoa(plan.OrdProbe-1) + "$"
		if !plan.Match.Extended {
			query = strconv.Itoa(plan.OrdProbe - 1)
		}
	}
	sim := zsim.New(c.simConfig())
	c.sim = sim
	fr, opts := runFilterOnce(c, sim, plan, "main", lines, query)
	if fr == nil {
		sim.Stop()
		return
	}
	if fr.err != nil || fr.code == ExitError {
		c.violate("filter.error", "Run returned code %d err %v for args %v", fr.code, fr.err, plan.args(query))
	}
	// C05 adds a clause of its own: the sort key must not depend on whether match positions were requested.
	// There the expected order is computed from accurate offsets (positions always requested); for the other
	// properties served by this scenario the reference is the sequential filter under the same options.
	accurate := c.prop == "C05"
	want, wantCode := expectFilter(c, plan, opts, lines, fr.consumed, query, accurate)
	got, terminated := splitOut(fr.stdout, plan.Print0)
	cfg := fmt.Sprintf("args=%v items=%d reads=%v", plan.args(query), len(lines), plan.Reads)
	if !terminated {
		c.violate("filter.framing", "last output record is not terminated (%s)", cfg)
	}
	if accurate && strings.Join(got, "\x00") != strings.Join(want, "\x00") {
		if want2, _ := expectFilter(c, plan, opts, lines, fr.consumed, query, false); strings.Join(got, "\x00") == strings.Join(want2, "\x00") {
			// the output is the sequential filter's, but its order is not the one accurate offsets give
			shape := "other"
			crit := plan.Match.criteria()
			beginEnd := false
			for _, k := range crit {
				if k == byBegin || k == byEnd {
					beginEnd = true
				}
			}
			if beginEnd && len(query) > 0 && (query[0] == ' ' || query[0] == '\t') && !plan.Match.Extended {
				shape = "begin/end tiebreak, query starts with white space"
			}
			d := firstDiffStr(got, want)
			c.violate("filter.positions_clause", "[%s] the order differs from the one computed with match positions requested: output line %d is %q, with accurate offsets it would be %q (%s)", shape, d, clip([]byte(got[d])), clip([]byte(want[d])), cfg)
			return
		}
	}
	compareOut(c, "filter", got, want, cfg)
	if fr.code != wantCode {
		c.violate("filter.exit_code", "exit status %d, expected %d (%d result lines; %s)", fr.code, wantCode, len(want), cfg)
	}
	if len(want) > 0 {
		c.count("nontrivial", 1)
	}
	if !plan.Match.Sort && !plan.Match.Tac && !plan.Sync {
		c.count("probe.streaming_path", 1)
	} else {
		c.count("probe.collected_path", 1)
	}
	if fr.consumed > readerBufferSize {
		c.count("probe.stream_gt_read_buffer", 1)
	}
	// sub-list (C05): filtering a sub-list yields the full result restricted to it, same relative order
	if plan.Sub != 0 && plan.ErrAt < 0 && plan.HeaderLines == 0 && plan.Tail == 0 && plan.OrdProbe == 0 &&
		!strings.Contains(plan.WithNth, "{n}") && len(c.viol) == 0 {
		sr := zsim.NewRng(plan.Sub)
		keep := map[string]bool{}
		var sub []string
		density := 1 + sr.Intn(4)
		for _, l := range lines {
			if sr.Intn(5) < density {
				sub = append(sub, l)
				k := l
				if plan.Ansi {
					k = strings.ReplaceAll(strings.ReplaceAll(strings.ReplaceAll(l, sgrOn, ""), sgrOff, ""), "Z\b", "")
				}
				keep[k] = true
			}
		}
		fr2, _ := runFilterOnce(c, sim, plan, "main2", sub, query)
		if fr2 != nil {
			got2, _ := splitOut(fr2.stdout, plan.Print0)
			var restricted []string
			start := 0
			if plan.PrintQuery {
				start = 1
				restricted = append(restricted, query)
			}
			for _, l := range got[minInt(start, len(got)):] {
				if keep[l] {
					restricted = append(restricted, l)
				}
			}
			compareOut(c, "sublist", got2, restricted, cfg+fmt.Sprintf(" sub=%d/%d", len(sub), len(lines)))
			c.count("probe.sublist_compared", 1)
		}
	}
	sim.Stop()
	c.state = fmt.Sprintf("n=%d out=%d code=%d", len(lines), len(got), fr.code)
}

func compareOut(c *runCtx, what string, got, want []string, cfg string) {
	n := len(got)
	if len(want) < n {
		n = len(want)
	}
	for i := 0; i < n; i++ {
		if got[i] != want[i] {
			// same multiset?
			class := what + ".order"
			gm := map[string]int{}
			for _, g := range got {
				gm[g]++
			}
			for _, w := range want {
				gm[w]--
			}
			for _, v := range gm {
				if v != 0 {
					class = what + ".content"
					break
				}
			}
			c.violate(class, "output line %d is %q, expected %q (got %d lines, expected %d; %s)", i, clip([]byte(got[i])), clip([]byte(want[i])), len(got), len(want), cfg)
			return
		}
	}
	if len(got) != len(want) {
		c.violate(what+".content", "%d output lines, expected %d; first extra/missing: %q (%s)", len(got), len(want), firstExtra(got, want), cfg)
	}
}

func firstDiffStr(a, b []string) int {
	for i := 0; i < len(a) && i < len(b); i++ {
		if a[i] != b[i] {
			return i
		}
	}
	return 0
}

func minInt(a, b int) int {
	if a < b {
		return a
	}
	return b
}

func firstExtra(got, want []string) string {
	if len(got) > len(want) {
		return clip([]byte(got[len(want)]))
	}
	return clip([]byte(want[len(got)]))
}

func init() {
	scenarios["filter"] = scenario{bubble: true, run: runFilter}
}
