// Package simexec replaces os/exec in src/util/util_unix.go.
package simexec

import (
	"errors"
	"io"
	"os/exec"

	"github.com/junegunn/fzf/src/zsim/simos"
	"github.com/junegunn/fzf/src/zsim/simsyscall"
)

type Process struct{ Pid int }

// Kill sends SIGKILL to this one process (not to its group).
func (p *Process) Kill() error {
	if simos.Cur == nil {
		return errors.New("simexec without simulated OS")
	}
	return simos.Cur.Kill(p.Pid)
}

// Cmd mirrors the fields and methods of exec.Cmd that fzf uses.
type Cmd struct {
	Path        string
	Args        []string
	Env         []string
	Stdin       io.Reader
	Stdout      io.Writer
	Stderr      io.Writer
	SysProcAttr *simsyscall.SysProcAttr
	Process     *Process

	proc     *simos.Proc
	pipe     io.ReadCloser
	wantPipe bool
	real     *exec.Cmd
}

func Command(name string, arg ...string) *Cmd {
	return &Cmd{Path: name, Args: append([]string{name}, arg...)}
}

func LookPath(file string) (string, error) { return "/bin/" + file, nil }

type pipeProxy struct{ c *Cmd }

func (p pipeProxy) Read(b []byte) (int, error) {
	if p.c.pipe == nil {
		return 0, io.EOF
	}
	return p.c.pipe.Read(b)
}
func (p pipeProxy) Close() error {
	if p.c.pipe == nil {
		return nil
	}
	return p.c.pipe.Close()
}

func (c *Cmd) StdoutPipe() (io.ReadCloser, error) {
	if simos.Cur == nil {
		return nil, errors.New("simexec without simulated OS")
	}
	c.wantPipe = true
	return pipeProxy{c}, nil
}

func (c *Cmd) Start() error {
	o := simos.Cur
	if o == nil {
		return errors.New("simexec without simulated OS")
	}
	p := &simos.Proc{Shell: c.Path, Args: c.Args[1:], Env: c.Env}
	if len(c.Args) > 0 {
		p.Command = c.Args[len(c.Args)-1]
	}
	if c.SysProcAttr != nil {
		p.Setpgid = c.SysProcAttr.Setpgid
	}
	c.proc = p
	pp, err := o.Start(p, c.Stdout, c.wantPipe)
	c.Process = &Process{Pid: p.Pid}
	if err != nil {
		return err
	}
	if pp != nil {
		c.pipe = pp
	}
	return nil
}

func (c *Cmd) Wait() error {
	if c.proc == nil {
		return errors.New("exec: not started")
	}
	return c.proc.Wait()
}

func (c *Cmd) Run() error {
	if err := c.Start(); err != nil {
		return err
	}
	return c.Wait()
}
