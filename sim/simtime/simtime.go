// Package simtime replaces "time" in the rewritten fzf sources. Everything is
// an alias of package time (whose clock is the synctest bubble's fake clock),
// except Now: fzf orders printed selections by time.Now() stamps, and under a
// frozen fake clock all stamps of one action would tie — an artefact that
// cannot occur with a real nanosecond monotonic clock — so Now is strictly
// increasing.
package simtime

import (
	"time"

	"github.com/junegunn/fzf/src/zsim"
)

type Duration = time.Duration
type Time = time.Time
type Timer = time.Timer
type Ticker = time.Ticker
type Month = time.Month

const (
	Nanosecond  = time.Nanosecond
	Microsecond = time.Microsecond
	Millisecond = time.Millisecond
	Second      = time.Second
	Minute      = time.Minute
	Hour        = time.Hour
)

func Sleep(d Duration)                      { time.Sleep(d) }
func After(d Duration) <-chan Time          { return time.After(d) }
func NewTimer(d Duration) *Timer            { return time.NewTimer(d) }
func NewTicker(d Duration) *Ticker          { return time.NewTicker(d) }
func Unix(sec int64, nsec int64) Time       { return time.Unix(sec, nsec) }
func AfterFunc(d Duration, f func()) *Timer { return time.AfterFunc(d, f) }

func Now() Time {
	s := zsim.Cur()
	if s == nil {
		return time.Now()
	}
	zsim.Yield("time.Now")
	return time.Now().Add(s.Tick())
}

func Since(t Time) Duration { return Now().Sub(t) }
