// Package simsync replaces "sync" in the rewritten fzf sources: every blocking
// primitive blocks on a channel, so that a waiting goroutine is *durably*
// blocked in the sense of testing/synctest, and every operation is a yield
// point of the deterministic scheduler.
package simsync

import (
	"sync"

	"github.com/junegunn/fzf/src/zsim"
)

type Once = sync.Once
type Locker = sync.Locker

// Mutex is a capacity-1 channel.
type Mutex struct {
	init sync.Mutex
	gen  uint64
	ch   chan struct{}
}

func (m *Mutex) c() chan struct{} {
	g := zsim.Gen()
	m.init.Lock()
	if m.ch == nil || m.gen != g {
		m.ch = make(chan struct{}, 1)
		m.gen = g
	}
	ch := m.ch
	m.init.Unlock()
	return ch
}

func (m *Mutex) Lock() {
	zsim.Yield("Lock")
	m.c() <- struct{}{}
}

func (m *Mutex) TryLock() bool {
	zsim.Yield("TryLock")
	select {
	case m.c() <- struct{}{}:
		return true
	default:
		return false
	}
}

func (m *Mutex) Unlock() {
	select {
	case <-m.c():
	default:
		panic("simsync: unlock of unlocked mutex")
	}
}

// RWMutex is not used by fzf at the pinned commit. Under the deterministic scheduler it is a plain
// mutex (one goroutine runs at a time anyway). In pass-through mode (the -race auxiliary) it is the real
// thing: an exclusive shim would add happens-before edges between readers and hide exactly the races a
// reader/writer lock can have (a writer that only took the read lock).
type RWMutex struct {
	Mutex
	rw sync.RWMutex
}

func passThrough() bool {
	s := zsim.Cur()
	return s != nil && s.PassThrough()
}

func (m *RWMutex) Lock() {
	if passThrough() {
		zsim.Yield("Lock")
		m.rw.Lock()
		return
	}
	m.Mutex.Lock()
}

func (m *RWMutex) Unlock() {
	if passThrough() {
		m.rw.Unlock()
		return
	}
	m.Mutex.Unlock()
}

func (m *RWMutex) RLock() {
	if passThrough() {
		zsim.Yield("RLock")
		m.rw.RLock()
		return
	}
	m.Mutex.Lock()
}

func (m *RWMutex) RUnlock() {
	if passThrough() {
		m.rw.RUnlock()
		return
	}
	m.Mutex.Unlock()
}

// Cond with per-waiter channels: enqueue-then-unlock, so no lost wake-ups.
type Cond struct {
	L       Locker
	mu      sync.Mutex
	waiters []chan struct{}
}

func NewCond(l Locker) *Cond { return &Cond{L: l} }

func (c *Cond) Wait() {
	ch := make(chan struct{})
	c.mu.Lock()
	c.waiters = append(c.waiters, ch)
	c.mu.Unlock()
	c.L.Unlock()
	<-ch
	c.L.Lock()
}

func (c *Cond) Signal() {
	zsim.Yield("Signal")
	c.mu.Lock()
	var ch chan struct{}
	if n := len(c.waiters); n > 0 {
		i := 0
		if s := zsim.Cur(); s != nil && n > 1 && !s.PassThrough() {
			i = s.Choose(n)
		}
		ch = c.waiters[i]
		c.waiters = append(c.waiters[:i], c.waiters[i+1:]...)
	}
	c.mu.Unlock()
	if ch != nil {
		close(ch)
	}
}

func (c *Cond) Broadcast() {
	c.mu.Lock()
	ws := c.waiters
	c.waiters = nil
	c.mu.Unlock()
	for _, ch := range ws {
		close(ch)
	}
}

// WaitGroup on channels.
type WaitGroup struct {
	mu   sync.Mutex
	n    int
	done chan struct{}
}

func (w *WaitGroup) Add(d int) {
	w.mu.Lock()
	w.n += d
	if w.n < 0 {
		w.mu.Unlock()
		panic("simsync: negative WaitGroup counter")
	}
	var ch chan struct{}
	if w.n == 0 {
		ch = w.done
		w.done = nil
	}
	w.mu.Unlock()
	if ch != nil {
		close(ch)
	}
}

func (w *WaitGroup) Done() {
	zsim.Yield("WaitGroup.Done")
	w.Add(-1)
}

func (w *WaitGroup) Wait() {
	zsim.Yield("WaitGroup.Wait")
	w.mu.Lock()
	if w.n == 0 {
		w.mu.Unlock()
		return
	}
	if w.done == nil {
		w.done = make(chan struct{})
	}
	ch := w.done
	w.mu.Unlock()
	<-ch
}
