module github.com/junegunn/fzf/src/zsim

go 1.20
