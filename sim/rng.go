package zsim

// Rng is a small, portable, seedable PRNG (splitmix64). Everything random in a
// simulated run derives from one of these.
type Rng struct{ s uint64 }

func NewRng(seed uint64) *Rng { return &Rng{s: seed} }

func (r *Rng) Uint64() uint64 {
	r.s += 0x9e3779b97f4a7c15
	z := r.s
	z = (z ^ (z >> 30)) * 0xbf58476d1ce4e5b9
	z = (z ^ (z >> 27)) * 0x94d049bb133111eb
	return z ^ (z >> 31)
}

// Intn returns a value in [0,n). n<=0 yields 0.
func (r *Rng) Intn(n int) int {
	if n <= 1 {
		return 0
	}
	return int(r.Uint64() % uint64(n))
}

// Range returns a value in [lo,hi].
func (r *Rng) Range(lo, hi int) int {
	if hi <= lo {
		return lo
	}
	return lo + r.Intn(hi-lo+1)
}

func (r *Rng) Bool() bool { return r.Uint64()&1 == 1 }

// Chance is true with probability num/den.
func (r *Rng) Chance(num, den int) bool { return r.Intn(den) < num }

func (r *Rng) Float() float64 { return float64(r.Uint64()>>11) / float64(1<<53) }

// Fork derives an independent stream.
func (r *Rng) Fork(label uint64) *Rng {
	return NewRng(Mix(r.Uint64(), label))
}

// Mix is splitmix-style hashing of two words.
func Mix(a, b uint64) uint64 {
	r := Rng{s: a ^ (b * 0x9e3779b97f4a7c15)}
	r.Uint64()
	return r.Uint64()
}

// HashString is FNV-1a 64.
func HashString(s string) uint64 {
	h := uint64(14695981039346656037)
	for i := 0; i < len(s); i++ {
		h ^= uint64(s[i])
		h *= 1099511628211
	}
	return h
}

// Seed53 returns a seed that survives a round trip through JSON numbers
// (float64): replay plans are minimised by a generic JSON shrinker.
func (r *Rng) Seed53() uint64 { return r.Uint64() >> 11 }
