package zsim

import (
	"reflect"
	"sort"
)

// SelCase is one comm clause of a rewritten select statement.
type SelCase interface {
	try() bool
	refl() reflect.SelectCase
	done(v reflect.Value, ok bool)
}

type recvCase[T any] struct {
	ch  <-chan T
	dst *T
	ok  *bool
}

func (c recvCase[T]) try() bool {
	if c.ch == nil {
		return false
	}
	select {
	case v, ok := <-c.ch:
		if c.dst != nil {
			*c.dst = v
		}
		if c.ok != nil {
			*c.ok = ok
		}
		return true
	default:
		return false
	}
}

func (c recvCase[T]) refl() reflect.SelectCase {
	if c.ch == nil {
		return reflect.SelectCase{Dir: reflect.SelectRecv}
	}
	return reflect.SelectCase{Dir: reflect.SelectRecv, Chan: reflect.ValueOf(c.ch)}
}

func (c recvCase[T]) done(v reflect.Value, ok bool) {
	if c.dst != nil {
		if ok {
			*c.dst = v.Interface().(T)
		} else {
			var z T
			*c.dst = z
		}
	}
	if c.ok != nil {
		*c.ok = ok
	}
}

type sendCase[T any] struct {
	ch chan<- T
	v  T
}

func (c sendCase[T]) try() bool {
	if c.ch == nil {
		return false
	}
	select {
	case c.ch <- c.v:
		return true
	default:
		return false
	}
}

func (c sendCase[T]) refl() reflect.SelectCase {
	if c.ch == nil {
		return reflect.SelectCase{Dir: reflect.SelectSend}
	}
	return reflect.SelectCase{Dir: reflect.SelectSend, Chan: reflect.ValueOf(c.ch), Send: reflect.ValueOf(&c.v).Elem()}
}

func (c sendCase[T]) done(reflect.Value, bool) {}

// Recv builds `case *dst = <-ch` (dst may be nil).
func Recv[T any](ch <-chan T, dst *T) SelCase { return recvCase[T]{ch: ch, dst: dst} }

// Recv2 builds `case *dst, *ok = <-ch`.
func Recv2[T any](ch <-chan T, dst *T, ok *bool) SelCase {
	return recvCase[T]{ch: ch, dst: dst, ok: ok}
}

// Send builds `case ch <- v`.
func Send[T any](ch chan<- T, v T) SelCase { return sendCase[T]{ch: ch, v: v} }

// Zero returns the zero value of a channel's element type (to pre-declare the
// variable of `case x := <-ch`).
func Zero[T any](ch <-chan T) T { var z T; return z }

// Select is what a `select` statement is rewritten into. It returns the index
// of the chosen clause, or -1 for default. Every outcome is a legal outcome of
// the original statement; among simultaneously ready clauses the tape decides.
func Select(site string, hasDefault bool, cases ...SelCase) int {
	s := cur.Load()
	if s != nil {
		s.yield("select:" + site)
	}
	active := false
	if s != nil {
		s.mu.Lock()
		active = s.active && !s.cfg.PassThrough
		s.mu.Unlock()
	}
	if active {
		// Which clauses are ready is only probed to decide whether a tape entry is
		// needed; probing itself must not consume anything, so: try in tape order.
		order := s.Perm(len(cases))
		for k, i := range order {
			if cases[i].try() {
				if k > 0 {
					s.Stats.SelectMulti++ // an earlier-ordered clause was not ready; informative only
				}
				return i
			}
		}
		if hasDefault {
			return -1
		}
	}
	rc := make([]reflect.SelectCase, 0, len(cases)+1)
	for _, c := range cases {
		rc = append(rc, c.refl())
	}
	if hasDefault {
		rc = append(rc, reflect.SelectCase{Dir: reflect.SelectDefault})
	}
	i, v, ok := reflect.Select(rc)
	if i == len(cases) {
		return -1
	}
	cases[i].done(v, ok)
	return i
}

// Keys returns the keys of a mailbox map in canonical order permuted by the
// tape (Go's own map order is random and would be uncontrolled).
func Keys[K ~int, V any](m map[K]V) []K {
	ks := make([]K, 0, len(m))
	for k := range m {
		ks = append(ks, k)
	}
	sort.Slice(ks, func(i, j int) bool { return ks[i] < ks[j] })
	s := cur.Load()
	if s == nil || len(ks) < 2 {
		return ks
	}
	s.mu.Lock()
	active := s.active && !s.cfg.PassThrough
	s.mu.Unlock()
	if !active {
		return ks
	}
	s.Stats.KeysMulti++
	p := s.Perm(len(ks))
	out := make([]K, len(ks))
	for i, j := range p {
		out[i] = ks[j]
	}
	return out
}

// MapOrder stands in for Go's randomised map iteration where the order can reach the outside: keys in
// ascending order while the clock is fine (the caller sorts by distinct instants anyway), a seeded
// permutation under a coarse clock (Config.ClockGrain), when ties let the iteration order through.
func MapOrder[K ~int32, V any](m map[K]V) []K {
	ks := make([]K, 0, len(m))
	for k := range m {
		ks = append(ks, k)
	}
	sort.Slice(ks, func(i, j int) bool { return ks[i] < ks[j] })
	s := cur.Load()
	if s == nil || len(ks) < 2 {
		return ks
	}
	s.mu.Lock()
	active := s.active && !s.cfg.PassThrough && s.cfg.ClockGrain > 1
	s.mu.Unlock()
	if !active {
		return ks
	}
	p := s.Perm(len(ks))
	out := make([]K, len(ks))
	for i, j := range p {
		out[i] = ks[j]
	}
	return out
}
