// Package simtty is the simulated terminal: an input byte queue feeding the
// real LightRenderer's decoder, and a VT emulator interpreting exactly the
// sequences the real LightRenderer can emit. An unknown sequence is an
// infrastructure error, never a violation.
package simtty

import (
	"fmt"
	"os"
	"strconv"
	"strings"
	"sync"
	"unicode/utf8"

	"github.com/junegunn/fzf/src/zsim"
)

// Cell of the screen grid.
type Cell struct {
	R    rune // 0 = blank
	W    int8 // display width of R (0 for the right half of a wide rune)
	Attr uint32
	Fg   int32
	Bg   int32
}

const (
	AttrBold = 1 << iota
	AttrDim
	AttrItalic
	AttrUnderline
	AttrBlink
	AttrReverse
	AttrStrike
)

type screen struct {
	cells  [][]Cell
	row    int
	col    int
	sr, sc int // saved cursor
}

// Debug logs every getch result into the run history.
var Debug = os.Getenv("VERIF_DEBUG") != ""

// TTY implements zsim.TTYDev.
type TTY struct {
	mu   sync.Mutex
	in   []byte
	wake chan struct{}
	hup  bool

	Cols, Rows int
	main, alt  screen
	cur        *screen
	Alt        bool
	Raw        bool
	RawCalls   int
	Restores   int
	OutClosed  bool
	Wrap       bool
	CursorOn   bool
	Mouse      map[int]bool // 1000, 1002, 1006
	Paste      bool
	attr       uint32
	fg, bg     int32
	pend       []byte // incomplete sequence carried between writes

	// measurements / audits
	Unknown       []string
	Malformed     int // ill-formed control sequences written by the application (ignored, like a real terminal does)
	Overflow      int // writes at or past the right margin
	OverflowStale int // … of which while the application had not yet learnt of a resize
	sizeStale     bool
	OverflowAt    string // where the first of them happened
	WritesClosed  int    // bytes written after the output was closed
	Bells         int
	BytesOut      int
	Scrolls       int
	// OnDSR is called (on the writing goroutine) when the application asks for the cursor position.
	OnDSR func(row, col int)
	// Width returns the display width of a rune (harness-owned table).
	Width func(r rune) int
}

// New creates a terminal of the given size with the cursor at (row, 0).
func New(cols, rows, cursorRow int) *TTY {
	t := &TTY{Cols: cols, Rows: rows, Wrap: true, CursorOn: true, Mouse: map[int]bool{}, wake: make(chan struct{}, 1), fg: -1, bg: -1}
	t.main = newScreen(cols, rows)
	t.alt = newScreen(cols, rows)
	t.cur = &t.main
	if cursorRow >= rows {
		cursorRow = rows - 1
	}
	if cursorRow < 0 {
		cursorRow = 0
	}
	t.main.row = cursorRow
	t.Width = func(r rune) int {
		if r < 0x300 {
			return 1
		}
		if r >= 0x300 && r < 0x370 {
			return 0
		}
		if r >= 0x1100 && (r <= 0x115f || r >= 0x2e80 && r <= 0xa4cf || r >= 0xac00 && r <= 0xd7a3 || r >= 0xf900 && r <= 0xfaff || r >= 0xfe30 && r <= 0xfe6f || r >= 0xff00 && r <= 0xff60 || r >= 0xffe0 && r <= 0xffe6 || r >= 0x1f300 && r <= 0x1faff) {
			return 2
		}
		return 1
	}
	return t
}

func newScreen(cols, rows int) screen {
	s := screen{cells: make([][]Cell, rows)}
	for i := range s.cells {
		s.cells[i] = make([]Cell, cols)
	}
	return s
}

// ---- input side -------------------------------------------------------------

// Feed appends bytes to the input queue (called by harness actors).
func (t *TTY) Feed(b []byte) {
	t.mu.Lock()
	t.in = append(t.in, b...)
	t.mu.Unlock()
	select {
	case t.wake <- struct{}{}:
	default:
	}
}

// FeedLocked is Feed for callers that already hold the device lock (the DSR
// responder runs inside Write).
func (t *TTY) FeedLocked(b []byte) {
	t.in = append(t.in, b...)
	select {
	case t.wake <- struct{}{}:
	default:
	}
}

// HangUp makes every further read fail.
func (t *TTY) HangUp() {
	t.mu.Lock()
	t.hup = true
	t.mu.Unlock()
	select {
	case t.wake <- struct{}{}:
	default:
	}
}

// Pending returns the number of unread input bytes.
func (t *TTY) Pending() int {
	t.mu.Lock()
	defer t.mu.Unlock()
	return len(t.in)
}

func (t *TTY) Getch(nonblock bool) (int, bool) {
	zsim.Yield("tty.getch")
	for {
		t.mu.Lock()
		if len(t.in) > 0 {
			c := t.in[0]
			t.in = t.in[1:]
			t.mu.Unlock()
			if Debug {
				zsim.Logf("getch(%v) -> %q", nonblock, c)
			}
			return int(c), true
		}
		if t.hup || nonblock {
			t.mu.Unlock()
			if Debug {
				zsim.Logf("getch(%v) -> none", nonblock)
			}
			return 0, false
		}
		t.mu.Unlock()
		<-t.wake
		zsim.Yield("tty.getch.wake")
	}
}

// ---- termios / lifecycle ----------------------------------------------------

func (t *TTY) MakeRaw(saveOrig bool) error {
	t.mu.Lock()
	t.Raw = true
	t.RawCalls++
	t.mu.Unlock()
	return nil
}

func (t *TTY) Restore() {
	t.mu.Lock()
	t.Raw = false
	t.Restores++
	t.mu.Unlock()
}

// WinSize is what the application's TIOCGWINSZ returns. Until the application has asked after a resize it
// still draws for the old size: writes past the (new) margin in that interval are the terminal's doing.
func (t *TTY) WinSize() (int, int) {
	t.mu.Lock()
	defer t.mu.Unlock()
	t.sizeStale = false
	return t.Cols, t.Rows
}

// Size is the harness's view of the window size (does not count as the application having noticed).
func (t *TTY) Size() (int, int) {
	t.mu.Lock()
	defer t.mu.Unlock()
	return t.Cols, t.Rows
}

func (t *TTY) CloseOut() {
	t.mu.Lock()
	t.OutClosed = true
	t.mu.Unlock()
}

// Resize changes the window size (the harness then delivers SIGWINCH).
func (t *TTY) Resize(cols, rows int) {
	t.mu.Lock()
	defer t.mu.Unlock()
	if cols < 1 {
		cols = 1
	}
	if rows < 1 {
		rows = 1
	}
	t.sizeStale = true
	for _, s := range []*screen{&t.main, &t.alt} {
		n := newScreen(cols, rows)
		for r := 0; r < rows && r < len(s.cells); r++ {
			copy(n.cells[r], s.cells[r])
		}
		n.row, n.col, n.sr, n.sc = s.row, s.col, s.sr, s.sc
		if n.row >= rows {
			n.row = rows - 1
		}
		if n.col >= cols {
			n.col = cols - 1
		}
		*s = n
	}
	t.Cols, t.Rows = cols, rows
}

// ---- output side: VT emulator -------------------------------------------------

func (t *TTY) Write(s string) {
	t.mu.Lock()
	defer t.mu.Unlock()
	t.BytesOut += len(s)
	if Debug {
		zsim.Logf("tty.write %q", s)
	}
	if t.OutClosed {
		t.WritesClosed += len(s)
	}
	data := append(t.pend, s...)
	t.pend = nil
	i := 0
	for i < len(data) {
		c := data[i]
		switch {
		case c == 0x1b:
			n, ok := t.escape(data[i:])
			if !ok {
				t.pend = append([]byte{}, data[i:]...)
				return
			}
			i += n
		case c == '\r':
			t.cur.col = 0
			i++
		case c == '\n':
			t.lineFeed()
			i++
		case c == 7:
			t.Bells++
			i++
		case c == '\b':
			if t.cur.col > 0 {
				t.cur.col--
			}
			i++
		case c < 32:
			// other C0 controls are filtered by the renderer (r >= 32 || ESC || NL/CR)
			t.unknown(fmt.Sprintf("C0 control 0x%02x", c))
			i++
		default:
			if !utf8.FullRune(data[i:]) && len(data)-i < utf8.UTFMax {
				t.pend = append([]byte{}, data[i:]...)
				return
			}
			r, sz := utf8.DecodeRune(data[i:])
			t.put(r)
			i += sz
		}
	}
}

func (t *TTY) unknown(s string) {
	if len(t.Unknown) < 20 {
		t.Unknown = append(t.Unknown, s)
	}
}

func (t *TTY) lineFeed() {
	s := t.cur
	if s.row < t.Rows-1 {
		s.row++
		return
	}
	// scroll up
	t.Scrolls++
	copy(s.cells, s.cells[1:])
	s.cells[t.Rows-1] = make([]Cell, t.Cols)
}

func (t *TTY) put(r rune) {
	s := t.cur
	w := t.Width(r)
	if w == 0 {
		// combining mark: attaches to the previous cell; nothing to store
		return
	}
	if s.col+w > t.Cols {
		if t.Wrap {
			s.col = 0
			t.lineFeed()
		} else if t.sizeStale {
			t.OverflowStale++
			s.col = t.Cols - w
			if s.col < 0 {
				return
			}
		} else {
			t.Overflow++
			if t.OverflowAt == "" {
				t.OverflowAt = fmt.Sprintf("glyph %q (%d columns) at row %d column %d of %d; the row so far: %q", r, w, s.row, s.col, t.Cols, t.rowLocked(s.row))
			}
			s.col = t.Cols - w
			if s.col < 0 {
				return
			}
		}
	}
	if s.col < 0 || s.col >= t.Cols || s.row < 0 || s.row >= t.Rows {
		// a glyph wider than the whole screen
		if t.sizeStale {
			t.OverflowStale++
		} else {
			t.Overflow++
		}
		t.clamp()
		return
	}
	row := s.cells[s.row]
	row[s.col] = Cell{R: r, W: int8(w), Attr: t.attr, Fg: t.fg, Bg: t.bg}
	if w == 2 && s.col+1 < t.Cols {
		row[s.col+1] = Cell{R: 0, W: 0, Attr: t.attr, Fg: t.fg, Bg: t.bg}
	}
	s.col += w
	if s.col >= t.Cols {
		// pending-wrap state simplified: cursor rests on the last column
		if !t.Wrap {
			s.col = t.Cols - 1
		} else {
			s.col = t.Cols - 1
		}
	}
}

// escape consumes one escape sequence at the start of b; ok=false if incomplete.
func (t *TTY) escape(b []byte) (int, bool) {
	if len(b) < 2 {
		return 0, false
	}
	switch b[1] {
	case '[':
		// CSI: parameters 0x30-0x3f, intermediates 0x20-0x2f, final 0x40-0x7e
		j := 2
		for j < len(b) && b[j] >= 0x30 && b[j] <= 0x3f {
			j++
		}
		inter := j
		for j < len(b) && b[j] >= 0x20 && b[j] <= 0x2f {
			j++
		}
		if j >= len(b) {
			return 0, false
		}
		if j > inter || b[j] < 0x40 || b[j] > 0x7e {
			// Ill-formed control sequence (e.g. a negative parameter, "CSI -1 C", which fzf emits for
			// off-screen coordinates at tiny sizes). A VT500-style parser ignores it up to its final byte.
			for j < len(b) && (b[j] < 0x40 || b[j] > 0x7e) {
				j++
			}
			if j >= len(b) {
				return 0, false
			}
			t.Malformed++
			return j + 1, true
		}
		t.csi(string(b[2:j]), b[j])
		return j + 1, true
	case ']':
		// OSC … terminated by BEL or ESC \
		for j := 2; j < len(b); j++ {
			if b[j] == 7 {
				return j + 1, true
			}
			if b[j] == 0x1b && j+1 < len(b) && b[j+1] == '\\' {
				return j + 2, true
			}
		}
		return 0, false
	case '7':
		t.cur.sr, t.cur.sc = t.cur.row, t.cur.col
		return 2, true
	case '8':
		t.cur.row, t.cur.col = t.cur.sr, t.cur.sc
		t.clamp()
		return 2, true
	case '\\':
		return 2, true
	}
	t.unknown(fmt.Sprintf("ESC %q", b[1]))
	return 2, true
}

func (t *TTY) clamp() {
	s := t.cur
	if s.row < 0 {
		s.row = 0
	}
	if s.row >= t.Rows {
		s.row = t.Rows - 1
	}
	if s.col < 0 {
		s.col = 0
	}
	if s.col >= t.Cols {
		s.col = t.Cols - 1
	}
}

func num(p string, def int) int {
	if p == "" {
		return def
	}
	n, err := strconv.Atoi(p)
	if err != nil {
		return def
	}
	return n
}

func (t *TTY) csi(params string, final byte) {
	s := t.cur
	if strings.HasPrefix(params, "?") {
		n := num(params[1:], -1)
		on := final == 'h'
		if final != 'h' && final != 'l' {
			t.unknown("CSI " + params + string(final))
			return
		}
		switch n {
		case 7:
			t.Wrap = on
		case 25:
			t.CursorOn = on
		case 1049:
			if on && !t.Alt {
				t.Alt = true
				t.main.sr, t.main.sc = t.main.row, t.main.col
				t.alt = newScreen(t.Cols, t.Rows)
				t.cur = &t.alt
			} else if !on && t.Alt {
				t.Alt = false
				t.cur = &t.main
				t.main.row, t.main.col = t.main.sr, t.main.sc
				t.clamp()
			}
		case 1000, 1002, 1006:
			t.Mouse[n] = on
		case 2004:
			t.Paste = on
		default:
			t.unknown("CSI " + params + string(final))
		}
		return
	}
	switch final {
	case 'A':
		s.row -= num(params, 1)
		t.clamp()
	case 'B':
		s.row += num(params, 1)
		t.clamp()
	case 'C':
		s.col += num(params, 1)
		t.clamp()
	case 'D':
		s.col -= num(params, 1)
		t.clamp()
	case 'G':
		s.col = num(params, 1) - 1
		t.clamp()
	case 'H':
		parts := strings.SplitN(params, ";", 2)
		s.row = num(parts[0], 1) - 1
		s.col = 0
		if len(parts) > 1 {
			s.col = num(parts[1], 1) - 1
		}
		t.clamp()
	case 'K':
		switch num(params, 0) {
		case 0:
			for c := s.col; c < t.Cols; c++ {
				s.cells[s.row][c] = Cell{}
			}
		case 1:
			for c := 0; c <= s.col && c < t.Cols; c++ {
				s.cells[s.row][c] = Cell{}
			}
		case 2:
			s.cells[s.row] = make([]Cell, t.Cols)
		}
	case 'J':
		switch num(params, 0) {
		case 0:
			for c := s.col; c < t.Cols; c++ {
				s.cells[s.row][c] = Cell{}
			}
			for r := s.row + 1; r < t.Rows; r++ {
				s.cells[r] = make([]Cell, t.Cols)
			}
		case 2, 3:
			for r := 0; r < t.Rows; r++ {
				s.cells[r] = make([]Cell, t.Cols)
			}
		default:
			t.unknown("CSI " + params + "J")
		}
	case 's':
		s.sr, s.sc = s.row, s.col
	case 'u':
		s.row, s.col = s.sr, s.sc
		t.clamp()
	case 'm':
		t.sgr(params)
	case 'n':
		if params == "6" {
			if t.OnDSR != nil {
				t.OnDSR(s.row+1, s.col+1)
			}
		} else {
			t.unknown("CSI " + params + "n")
		}
	default:
		t.unknown("CSI " + params + string(final))
	}
}

func (t *TTY) sgr(params string) {
	if params == "" {
		t.attr, t.fg, t.bg = 0, -1, -1
		return
	}
	ps := strings.Split(params, ";")
	for i := 0; i < len(ps); i++ {
		n := num(ps[i], 0)
		switch {
		case n == 0:
			t.attr, t.fg, t.bg = 0, -1, -1
		case n == 1:
			t.attr |= AttrBold
		case n == 2:
			t.attr |= AttrDim
		case n == 3:
			t.attr |= AttrItalic
		case n == 4:
			t.attr |= AttrUnderline
		case n == 5:
			t.attr |= AttrBlink
		case n == 7:
			t.attr |= AttrReverse
		case n == 9:
			t.attr |= AttrStrike
		case n == 22:
			t.attr &^= AttrBold | AttrDim
		case n >= 23 && n <= 29:
		case n >= 30 && n <= 37:
			t.fg = int32(n - 30)
		case n == 39:
			t.fg = -1
		case n >= 40 && n <= 47:
			t.bg = int32(n - 40)
		case n == 49:
			t.bg = -1
		case n >= 90 && n <= 97:
			t.fg = int32(n - 90 + 8)
		case n >= 100 && n <= 107:
			t.bg = int32(n - 100 + 8)
		case n == 38 || n == 48:
			var col int32 = -1
			if i+2 < len(ps) && ps[i+1] == "5" {
				col = int32(num(ps[i+2], 0))
				i += 2
			} else if i+4 < len(ps) && ps[i+1] == "2" {
				col = 1<<24 | int32(num(ps[i+2], 0))<<16 | int32(num(ps[i+3], 0))<<8 | int32(num(ps[i+4], 0))
				i += 4
			}
			if n == 38 {
				t.fg = col
			} else {
				t.bg = col
			}
		}
	}
}

// ---- inspection ---------------------------------------------------------------

// Row returns the text of a screen row (trailing blanks removed).
func (t *TTY) Row(r int) string {
	t.mu.Lock()
	defer t.mu.Unlock()
	return t.rowLocked(r)
}

func (t *TTY) rowLocked(r int) string {
	if r < 0 || r >= t.Rows {
		return ""
	}
	var sb strings.Builder
	for _, c := range t.cur.cells[r] {
		if c.R == 0 {
			if c.W == 0 && sb.Len() > 0 {
				// blank cell or right half of a wide rune
			}
			sb.WriteByte(' ')
			continue
		}
		sb.WriteRune(c.R)
	}
	return strings.TrimRight(sb.String(), " ")
}

// Cells returns a copy of a row's cells.
func (t *TTY) Cells(r int) []Cell {
	t.mu.Lock()
	defer t.mu.Unlock()
	if r < 0 || r >= t.Rows {
		return nil
	}
	return append([]Cell(nil), t.cur.cells[r]...)
}

// Screen returns all rows as text.
func (t *TTY) Screen() []string {
	t.mu.Lock()
	defer t.mu.Unlock()
	out := make([]string, t.Rows)
	for r := range out {
		out[r] = t.rowLocked(r)
	}
	return out
}

// Cursor returns the cursor position on the active screen.
func (t *TTY) Cursor() (row, col int) {
	t.mu.Lock()
	defer t.mu.Unlock()
	return t.cur.row, t.cur.col
}

// Audit lists what is wrong with the terminal state for a process that has exited.
func (t *TTY) Audit() []string {
	t.mu.Lock()
	defer t.mu.Unlock()
	var out []string
	if t.Raw {
		out = append(out, "termios left in raw mode")
	}
	if t.Alt {
		out = append(out, "alternate screen not left")
	}
	for _, m := range []int{1000, 1002, 1006} {
		if t.Mouse[m] {
			out = append(out, fmt.Sprintf("mouse mode ?%d still enabled", m))
		}
	}
	if t.Paste {
		out = append(out, "bracketed paste mode still enabled")
	}
	if !t.CursorOn {
		out = append(out, "cursor left hidden")
	}
	if !t.Wrap {
		out = append(out, "autowrap left disabled")
	}
	return out
}

// Modes reports bracketed paste and mouse reporting (?1000) as the terminal has them now.
func (t *TTY) Modes() (paste, mouse bool) {
	t.mu.Lock()
	defer t.mu.Unlock()
	return t.Paste, t.Mouse[1000]
}
