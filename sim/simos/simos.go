// Package simos is the simulated operating system of a run: process table,
// pipes, signals. Child processes are played by harness-provided scripts.
package simos

import (
	"errors"
	"fmt"
	"io"
	"os"
	"regexp"
	"sort"
	"strings"
	"sync"
	"time"

	"github.com/junegunn/fzf/src/zsim"
)

// Chunk of a child's output.
type Chunk struct {
	DelayMs int
	Data    string
}

// Script is the behaviour of one child process.
type Script struct {
	StartErr bool
	Chunks   []Chunk
	Endless  bool // after the chunks: keep the process alive (silent) until killed
	FinalMs  int  // delay before exit
	LingerMs int  // after the chunks: close the output (the reader sees EOF) and stay alive this long
	ExitCode int
	// Fork: the shell forks a child (a pipeline or compound command) that does the work and holds the
	// output pipe; only a signal to the whole process group reaches it.
	Fork bool
	// DetachMs: the command leaves a process behind that has left the process group (setsid, a daemon) and
	// keeps the output pipe open for this long without writing; no signal fzf sends reaches it.
	DetachMs int
	// IgnoreTerm: the command (shell and whatever it forks) ignores every signal that can be ignored
	// (`trap '' TERM INT HUP`); only SIGKILL ends it.
	IgnoreTerm bool
}

// Proc is an entry of the simulated process table.
type Proc struct {
	Pid, Pgid int
	Shell     string
	Args      []string // argv of the shell: e.g. ["-c", "PV 3 'foo bar'"]
	Command   string   // the command line handed to the shell
	Env       []string
	Setpgid   bool
	HasPipe   bool
	Started   time.Duration
	Ended     time.Duration
	Alive     bool
	Killed    bool // SIGKILL delivered
	KilledAt  time.Duration
	ExitCode  int
	Emitted   strings.Builder // everything written so far
	Consumed  int             // bytes read from the pipe by fzf

	os     *OS
	script Script
	killCh chan struct{}
	doneCh chan struct{}
	pipe   *pipe
	stdout io.Writer
	waited bool
	Parent *Proc
	child  *Proc
	// Detached: has left the process group of the command that started it; not fzf's to clean up
	Detached bool
}

// OS is the simulated operating system.
type OS struct {
	mu       sync.Mutex
	sim      *zsim.Sim
	nextPid  int
	Procs    []*Proc
	Behave   func(p *Proc) Script
	sigs     map[chan<- os.Signal][]os.Signal
	Log      func(format string, a ...any)
	Became   *Proc // set when fzf replaced itself (become)
	Stops    int   // SIGTSTP to self
	SelfPid  int
	PipeFull int // times a writer found its pipe full and blocked
}

// Cur is the OS of the current run (nil: real OS).
var Cur *OS

// New installs a fresh simulated OS.
func New(sim *zsim.Sim) *OS {
	o := &OS{sim: sim, nextPid: 2000, sigs: map[chan<- os.Signal][]os.Signal{}, SelfPid: 1000}
	Cur = o
	return o
}

var tempName = regexp.MustCompile(`(verif-run-|run-|fzf-temp-|verif-stdout-)[0-9]+`)

// logf writes to the run history. Temp-file names are random: they never enter the log.
func (o *OS) logf(format string, a ...any) {
	if o.Log != nil {
		o.Log("%s", tempName.ReplaceAllString(fmt.Sprintf(format, a...), "${1}N"))
	}
}

// ---- signals -----------------------------------------------------------------

func (o *OS) Notify(c chan<- os.Signal, sig ...os.Signal) {
	o.mu.Lock()
	o.sigs[c] = append(o.sigs[c], sig...)
	o.mu.Unlock()
}

func (o *OS) StopNotify(c chan<- os.Signal) {
	o.mu.Lock()
	delete(o.sigs, c)
	o.mu.Unlock()
}

// Signal delivers a signal to the fzf process (non-blocking, like os/signal).
// It reports whether any handler was registered (false: default action).
func (o *OS) Signal(sig os.Signal) bool {
	o.mu.Lock()
	type ent struct {
		c    chan<- os.Signal
		name string
	}
	var cs []chan<- os.Signal
	for c, ss := range o.sigs {
		for _, s := range ss {
			if s == sig {
				cs = append(cs, c)
				break
			}
		}
	}
	o.mu.Unlock()
	// deterministic order: by registration is unknown for a map; order by formatted address is not
	// stable across runs, so deliver to all (non-blocking sends commute: distinct channels)
	for _, c := range cs {
		select {
		case c <- sig:
		default:
		}
	}
	return len(cs) > 0
}

// ---- processes ---------------------------------------------------------------

var ErrStart = errors.New("simulated: cannot start command")

// Start registers and launches a child.
func (o *OS) Start(p *Proc, stdout io.Writer, wantPipe bool) (*pipe, error) {
	zsim.Yield("proc.start")
	o.mu.Lock()
	o.nextPid++
	p.Pid = o.nextPid
	p.Pgid = o.SelfPid
	if p.Setpgid {
		p.Pgid = p.Pid
	}
	p.os = o
	p.Started = o.sim.Now()
	p.killCh = make(chan struct{})
	p.doneCh = make(chan struct{})
	p.stdout = stdout
	p.HasPipe = wantPipe
	if wantPipe {
		p.pipe = newPipe(p)
	}
	o.Procs = append(o.Procs, p)
	behave := o.Behave
	o.mu.Unlock()
	if behave != nil {
		p.script = behave(p)
	}
	if p.script.StartErr {
		p.Alive = false
		p.ExitCode = 127
		p.Ended = o.sim.Now()
		o.logf("proc %d start-failed %q", p.Pid, p.Command)
		close(p.doneCh)
		if p.pipe != nil {
			p.pipe.closeWrite()
		}
		return nil, ErrStart
	}
	p.Alive = true
	o.logf("proc %d start pgid=%d %q", p.Pid, p.Pgid, p.Command)
	o.sim.Go(fmt.Sprintf("proc/%d", p.Pid), p.run)
	return p.pipe, nil
}

func (p *Proc) sleep(ms int) bool {
	if ms <= 0 {
		select {
		case <-p.killCh:
			return false
		default:
			return true
		}
	}
	t := time.NewTimer(time.Duration(ms) * time.Millisecond)
	defer t.Stop()
	select {
	case <-p.killCh:
		return false
	case <-t.C:
		return true
	}
}

func (p *Proc) killedAlready() bool {
	select {
	case <-p.killCh:
		return true
	default:
		return false
	}
}

func (p *Proc) run() {
	if p.script.Fork && p.Parent == nil && !p.killedAlready() { // a killed shell forks nothing
		// the shell: start the worker child in the same process group and wait for it
		o := p.os
		o.mu.Lock()
		o.nextPid++
		ch := &Proc{Pid: o.nextPid, Pgid: p.Pgid, Shell: p.Shell, Command: p.Command + " [forked child]", Env: p.Env, Setpgid: p.Setpgid,
			os: o, Started: o.sim.Now(), Alive: true, killCh: make(chan struct{}), doneCh: make(chan struct{}), pipe: p.pipe, stdout: p.stdout, Parent: p}
		ch.script = p.script
		p.child = ch
		o.Procs = append(o.Procs, ch)
		if p.pipe != nil {
			p.pipe.addWriter()
		}
		o.mu.Unlock()
		o.logf("proc %d fork -> %d", p.Pid, ch.Pid)
		o.sim.Go(fmt.Sprintf("proc/%d", ch.Pid), ch.run)
		killed := false
		select {
		case <-p.killCh:
			killed = true
		case <-ch.doneCh:
		}
		zsim.Yield("proc.exit")
		o.mu.Lock()
		p.Alive = false
		p.Ended = o.sim.Now()
		if killed || p.Killed {
			p.ExitCode = 137
		} else {
			p.ExitCode = ch.ExitCode
		}
		o.mu.Unlock()
		o.logf("proc %d exit code=%d", p.Pid, p.ExitCode)
		if p.pipe != nil {
			p.pipe.closeWrite()
		}
		close(p.doneCh)
		return
	}
	if p.script.DetachMs > 0 && p.Parent == nil && p.pipe != nil && !p.killedAlready() {
		o := p.os
		o.mu.Lock()
		o.nextPid++
		d := &Proc{Pid: o.nextPid, Shell: p.Shell, Command: "[detached] left behind by " + p.Command, Env: p.Env,
			os: o, Started: o.sim.Now(), Alive: true, killCh: make(chan struct{}), doneCh: make(chan struct{}), pipe: p.pipe, Parent: p, Detached: true}
		d.Pgid = d.Pid
		o.Procs = append(o.Procs, d)
		p.pipe.addWriter()
		o.mu.Unlock()
		o.logf("proc %d leaves %d behind (own session, holds the pipe)", p.Pid, d.Pid)
		ms := p.script.DetachMs
		o.sim.Go(fmt.Sprintf("proc/%d", d.Pid), func() {
			d.sleep(ms)
			o.mu.Lock()
			d.Alive = false
			d.Ended = o.sim.Now()
			o.mu.Unlock()
			o.logf("proc %d exit code=0", d.Pid)
			d.pipe.closeWrite()
			close(d.doneCh)
		})
	}
	alive := true
	for _, c := range p.script.Chunks {
		if !p.sleep(c.DelayMs) {
			alive = false
			break
		}
		zsim.Yield("proc.write")
		select {
		case <-p.killCh:
			alive = false
		default:
		}
		if !alive {
			break
		}
		took := func(b []byte) {
			p.os.mu.Lock()
			p.Emitted.Write(b)
			p.os.mu.Unlock()
		}
		if p.pipe != nil {
			if !p.pipe.write([]byte(c.Data), p.killCh, took) {
				alive = false
				break
			}
		} else {
			// foreground command writing to the terminal: discarded
			took([]byte(c.Data))
		}
	}
	if alive && p.script.Endless {
		<-p.killCh
		alive = false
	}
	if alive && p.script.FinalMs > 0 {
		alive = p.sleep(p.script.FinalMs)
	}
	outClosed := false
	if alive && p.script.LingerMs > 0 {
		// e.g. `echo x; exec >&- 2>&-; sleep 40`: the output is complete long before the process is gone
		if p.pipe != nil {
			p.pipe.closeWrite()
			outClosed = true
		}
		p.os.logf("proc %d closed its output, lingers", p.Pid)
		alive = p.sleep(p.script.LingerMs)
	}
	zsim.Yield("proc.exit")
	p.os.mu.Lock()
	p.Alive = false
	p.Ended = p.os.sim.Now()
	if !alive || p.Killed {
		p.ExitCode = 137
	} else {
		p.ExitCode = p.script.ExitCode
	}
	p.os.mu.Unlock()
	p.os.logf("proc %d exit code=%d", p.Pid, p.ExitCode)
	if p.pipe != nil && !outClosed {
		p.pipe.closeWrite()
	}
	close(p.doneCh)
}

// Wait blocks until the child has exited.
func (p *Proc) Wait() error {
	zsim.Yield("proc.wait")
	<-p.doneCh
	p.waited = true
	if p.ExitCode != 0 {
		return fmt.Errorf("exit status %d", p.ExitCode)
	}
	return nil
}

// Kill delivers SIGKILL to pid (>0) or to process group -pid (<0).
func (o *OS) Kill(pid int) error { return o.KillSig(pid, 9) }

// KillSig delivers a signal whose default action ends a process: SIGKILL always does, any other one only
// where the command does not ignore it.
func (o *OS) KillSig(pid int, sig int) error {
	zsim.Yield("kill")
	o.mu.Lock()
	var victims []*Proc
	for _, p := range o.Procs {
		if pid > 0 && p.Pid == pid || pid < 0 && p.Pgid == -pid {
			victims = append(victims, p)
		}
	}
	o.mu.Unlock()
	if len(victims) == 0 {
		return errors.New("no such process")
	}
	hit := false
	for _, p := range victims {
		o.mu.Lock()
		already := p.Killed
		alive := p.Alive
		if sig != 9 && p.script.IgnoreTerm {
			if alive {
				hit = true // delivered (and ignored): kill(2) succeeds
				o.logf("proc %d ignores signal %d", p.Pid, sig)
			}
			o.mu.Unlock()
			continue
		}
		if !already && alive {
			p.Killed = true
			p.KilledAt = o.sim.Now()
		}
		o.mu.Unlock()
		if !already && alive {
			hit = true
			o.logf("proc %d SIGKILL", p.Pid)
			close(p.killCh)
		}
	}
	if !hit {
		return errors.New("no such process")
	}
	return nil
}

// AliveUnkilled lists children that are alive and have not been sent SIGKILL.
func (o *OS) AliveUnkilled() []*Proc {
	o.mu.Lock()
	defer o.mu.Unlock()
	var out []*Proc
	for _, p := range o.Procs {
		if p.Alive && !p.Killed && !p.Detached {
			if p.pipe != nil && p.pipe.blocked > 0 {
				// blocked in write(2) on a pipe only fzf reads: when fzf is gone (exit, exec: the descriptor is
				// close-on-exec) the write fails with SIGPIPE and the process ends (and the shell waiting for it) - nothing stays behind
				continue
			}
			out = append(out, p)
		}
	}
	sort.Slice(out, func(i, j int) bool { return out[i].Pid < out[j].Pid })
	return out
}

// Snapshot returns the process list (for the harness; call at quiescence).
func (o *OS) Snapshot() []*Proc {
	o.mu.Lock()
	defer o.mu.Unlock()
	return append([]*Proc(nil), o.Procs...)
}

// ---- pipe --------------------------------------------------------------------

type pipe struct {
	mu      sync.Mutex
	buf     []byte
	writers int
	wclosed bool
	rclosed bool
	wake    chan struct{}
	room    chan struct{}
	blocked int // writers waiting for room (under os.mu)
	p       *Proc
}

// PipeCap is what a pipe holds before a writer blocks (Linux: 64 KiB).
const PipeCap = 65536

func newPipe(p *Proc) *pipe {
	return &pipe{wake: make(chan struct{}, 1), room: make(chan struct{}, 1), p: p, writers: 1}
}

func (pp *pipe) addWriter() {
	pp.mu.Lock()
	pp.writers++
	pp.mu.Unlock()
}

func (pp *pipe) signal() {
	select {
	case pp.wake <- struct{}{}:
	default:
	}
}

func (pp *pipe) hasRoom() {
	select {
	case pp.room <- struct{}{}:
	default:
	}
}

// write blocks while the pipe is full, like write(2) on a pipe nobody drains; a kill ends the wait.
// accepted is called with each piece the pipe took.
func (pp *pipe) write(b []byte, kill <-chan struct{}, accepted func([]byte)) bool {
	for len(b) > 0 {
		pp.mu.Lock()
		if pp.rclosed {
			// nobody will ever read this: SIGPIPE, whose default action ends the writer
			pp.mu.Unlock()
			pp.p.os.logf("proc %d SIGPIPE", pp.p.Pid)
			return false
		}
		if free := PipeCap - len(pp.buf); free > 0 {
			n := len(b)
			if n > free {
				n = free
			}
			pp.buf = append(pp.buf, b[:n]...)
			pp.mu.Unlock()
			accepted(b[:n])
			b = b[n:]
			pp.signal()
			continue
		}
		pp.mu.Unlock()
		pp.p.os.mu.Lock()
		pp.p.os.PipeFull++
		pp.blocked++
		pp.p.os.mu.Unlock()
		select {
		case <-pp.room:
		case <-kill:
			pp.p.os.mu.Lock()
			pp.blocked--
			pp.p.os.mu.Unlock()
			return false
		}
		pp.p.os.mu.Lock()
		pp.blocked--
		pp.p.os.mu.Unlock()
		zsim.Yield("pipe.write.wake")
	}
	return true
}

func (pp *pipe) closeWrite() {
	pp.mu.Lock()
	pp.writers--
	if pp.writers <= 0 {
		pp.wclosed = true
	}
	pp.mu.Unlock()
	pp.signal()
}

func (pp *pipe) Read(b []byte) (int, error) {
	zsim.Yield("pipe.read")
	for {
		pp.mu.Lock()
		if pp.rclosed {
			pp.mu.Unlock()
			return 0, os.ErrClosed
		}
		if len(pp.buf) > 0 {
			n := copy(b, pp.buf)
			// seeded short reads: deliver a prefix
			if s := zsim.Cur(); s != nil && n > 1 && ReadCut != nil {
				if k := ReadCut(n); k > 0 && k < n {
					n = k
				}
			}
			pp.buf = pp.buf[n:]
			pp.p.Consumed += n
			more := len(pp.buf) > 0
			pp.mu.Unlock()
			if more {
				pp.signal()
			}
			pp.hasRoom()
			return n, nil
		}
		if pp.wclosed {
			pp.mu.Unlock()
			return 0, io.EOF
		}
		pp.mu.Unlock()
		<-pp.wake
		zsim.Yield("pipe.read.wake")
	}
}

func (pp *pipe) Close() error {
	pp.mu.Lock()
	pp.rclosed = true
	pp.mu.Unlock()
	pp.signal()
	pp.hasRoom()
	return nil
}

// ReadCut, when set, decides how many of n available bytes a pipe read returns.
var ReadCut func(n int) int
