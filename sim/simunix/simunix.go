// Package simunix replaces golang.org/x/sys/unix in src/util/util_unix.go.
package simunix

func Dup2(oldfd int, newfd int) error { return nil }
