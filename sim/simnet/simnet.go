// Package simnet replaces "net" in src/server.go and src/terminal.go: the
// listener hands out net.Pipe ends (durably blocking inside a synctest bubble,
// deadlines on the fake clock) to which simulated clients connect.
package simnet

import (
	"errors"
	"io"
	"net"
	"strconv"
	"strings"
	"sync"
	"time"

	"github.com/junegunn/fzf/src/zsim"
)

type Listener = net.Listener
type Conn = net.Conn
type Addr = net.Addr

var ErrClosed = net.ErrClosed

// Net is the simulated network of a run.
type Net struct {
	mu        sync.Mutex
	listeners map[string]*listener
	Listens   []string // addresses fzf listened on
}

// Cur is the network of the current run (nil: real network).
var Cur *Net

func New() *Net {
	n := &Net{listeners: map[string]*listener{}}
	Cur = n
	return n
}

type addr struct{ s string }

func (a addr) Network() string { return "tcp" }
func (a addr) String() string  { return a.s }

type listener struct {
	n      *Net
	addr   string
	queue  chan net.Conn
	closed chan struct{}
	once   sync.Once
}

func Listen(network, address string) (net.Listener, error) {
	n := Cur
	if n == nil {
		return net.Listen(network, address)
	}
	zsim.Yield("listen")
	host, port := address, "0"
	if i := strings.LastIndex(address, ":"); i >= 0 {
		host, port = address[:i], address[i+1:]
	}
	if port == "0" {
		port = "54321"
	}
	if _, err := strconv.Atoi(port); err != nil {
		return nil, errors.New("listen: bad port")
	}
	if host == "localhost" {
		host = "127.0.0.1"
	}
	l := &listener{n: n, addr: host + ":" + port, queue: make(chan net.Conn, 64), closed: make(chan struct{})}
	n.mu.Lock()
	n.listeners[l.addr] = l
	n.Listens = append(n.Listens, address)
	n.mu.Unlock()
	return l, nil
}

func (l *listener) Accept() (net.Conn, error) {
	zsim.Yield("accept")
	select {
	case <-l.closed:
		return nil, net.ErrClosed
	default:
	}
	select {
	case c := <-l.queue:
		return c, nil
	case <-l.closed:
		return nil, net.ErrClosed
	}
}

func (l *listener) Close() error {
	zsim.Yield("listener.close")
	l.once.Do(func() { close(l.closed) })
	return nil
}

func (l *listener) Addr() net.Addr { return addr{l.addr} }

// Dial connects a simulated client to the (only) listener; nil if none or closed.
func (n *Net) Dial() net.Conn {
	n.mu.Lock()
	var l *listener
	for _, x := range n.listeners {
		l = x
	}
	n.mu.Unlock()
	if l == nil {
		return nil
	}
	select {
	case <-l.closed:
		return nil
	default:
	}
	a, b := &stream{wake: make(chan struct{}, 1)}, &stream{wake: make(chan struct{}, 1), limit: SockBuf, room: make(chan struct{}, 1)}
	srv := &bconn{r: a, w: b, side: "srv"}
	cli := &bconn{r: b, w: a, side: "cli"}
	select {
	case l.queue <- srv:
	default:
		return nil
	}
	return cli
}

// Listening reports whether a listener is open.
func (n *Net) Listening() bool {
	n.mu.Lock()
	defer n.mu.Unlock()
	for _, l := range n.listeners {
		select {
		case <-l.closed:
		default:
			return true
		}
	}
	return false
}

// stream is one direction of a simulated TCP connection: a buffer that is
// unbounded by default (a kernel socket buffer absorbs fzf's small responses;
// writes do not block) or holds at most limit bytes (SockBuf: a peer that does
// not read makes the writer wait, like send and receive buffers that are full).
type stream struct {
	mu     sync.Mutex
	buf    []byte
	closed bool
	wake   chan struct{}
	limit  int
	room   chan struct{}
}

// SockBuf, if positive, bounds what the server side can have written and unread on a connection
// dialed from now on.
var SockBuf int

func (s *stream) signal() {
	select {
	case s.wake <- struct{}{}:
	default:
	}
}

type bconn struct {
	r, w      *stream
	side      string
	mu        sync.Mutex
	deadline  time.Time
	wdeadline time.Time
}

type timeoutError struct{}

func (timeoutError) Error() string   { return "i/o timeout" }
func (timeoutError) Timeout() bool   { return true }
func (timeoutError) Temporary() bool { return true }

func (c *bconn) Read(b []byte) (int, error) {
	zsim.Yield("conn.read." + c.side)
	for {
		c.r.mu.Lock()
		if len(c.r.buf) > 0 {
			n := copy(b, c.r.buf)
			c.r.buf = c.r.buf[n:]
			c.r.mu.Unlock()
			if c.r.room != nil {
				select {
				case c.r.room <- struct{}{}:
				default:
				}
			}
			return n, nil
		}
		if c.r.closed {
			c.r.mu.Unlock()
			return 0, io.EOF
		}
		c.r.mu.Unlock()
		c.mu.Lock()
		dl := c.deadline
		c.mu.Unlock()
		if dl.IsZero() {
			<-c.r.wake
		} else {
			d := time.Until(dl)
			if d <= 0 {
				return 0, timeoutError{}
			}
			t := time.NewTimer(d)
			select {
			case <-c.r.wake:
				t.Stop()
			case <-t.C:
				return 0, timeoutError{}
			}
		}
		zsim.Yield("conn.read.wake." + c.side)
	}
}

func (c *bconn) Write(b []byte) (int, error) {
	zsim.Yield("conn.write." + c.side)
	written := 0
	for {
		c.w.mu.Lock()
		if c.w.closed {
			c.w.mu.Unlock()
			return written, errors.New("write: broken pipe")
		}
		n := len(b) - written
		if c.w.limit > 0 {
			if free := c.w.limit - len(c.w.buf); free < n {
				n = free
			}
		}
		if n > 0 {
			c.w.buf = append(c.w.buf, b[written:written+n]...)
			written += n
		}
		c.w.mu.Unlock()
		if n > 0 {
			c.w.signal()
		}
		if written == len(b) {
			return written, nil
		}
		// the peer's buffers are full: wait until it reads (or the write deadline passes)
		c.mu.Lock()
		dl := c.wdeadline
		c.mu.Unlock()
		if dl.IsZero() {
			<-c.w.room
		} else {
			d := time.Until(dl)
			if d <= 0 {
				return written, timeoutError{}
			}
			t := time.NewTimer(d)
			select {
			case <-c.w.room:
				t.Stop()
			case <-t.C:
				return written, timeoutError{}
			}
		}
		zsim.Yield("conn.write.wake." + c.side)
	}
}

func (c *bconn) Close() error {
	zsim.Yield("conn.close." + c.side)
	for _, s := range []*stream{c.w, c.r} {
		s.mu.Lock()
		s.closed = true
		s.mu.Unlock()
		s.signal()
		if s.room != nil {
			select {
			case s.room <- struct{}{}:
			default:
			}
		}
	}
	return nil
}

func (c *bconn) LocalAddr() net.Addr  { return addr{"127.0.0.1:1"} }
func (c *bconn) RemoteAddr() net.Addr { return addr{"127.0.0.1:2"} }
func (c *bconn) SetDeadline(t time.Time) error {
	c.SetWriteDeadline(t)
	return c.SetReadDeadline(t)
}
func (c *bconn) SetReadDeadline(t time.Time) error {
	c.mu.Lock()
	c.deadline = t
	c.mu.Unlock()
	return nil
}
func (c *bconn) SetWriteDeadline(t time.Time) error {
	c.mu.Lock()
	c.wdeadline = t
	c.mu.Unlock()
	return nil
}
