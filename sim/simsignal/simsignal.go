// Package simsignal replaces os/signal.
package simsignal

import (
	"os"
	"os/signal"

	"github.com/junegunn/fzf/src/zsim/simos"
)

func Notify(c chan<- os.Signal, sig ...os.Signal) {
	if simos.Cur != nil {
		simos.Cur.Notify(c, sig...)
		return
	}
	signal.Notify(c, sig...)
}

func Stop(c chan<- os.Signal) {
	if simos.Cur != nil {
		simos.Cur.StopNotify(c)
		return
	}
	signal.Stop(c)
}
