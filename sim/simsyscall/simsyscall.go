// Package simsyscall replaces syscall in src/util/util_unix.go.
package simsyscall

import (
	"errors"
	"syscall"

	"github.com/junegunn/fzf/src/zsim/simos"
)

type SysProcAttr struct{ Setpgid bool }
type Signal = syscall.Signal

const (
	SIGKILL = syscall.SIGKILL
	SIGTERM = syscall.SIGTERM
	SIGTSTP = syscall.SIGTSTP
)

func Kill(pid int, sig Signal) error {
	if simos.Cur == nil {
		return errors.New("simsyscall without simulated OS")
	}
	return simos.Cur.KillSig(pid, int(sig))
}

func Exec(argv0 string, argv []string, envv []string) error {
	return errors.New("simsyscall: exec is intercepted by the Become seam")
}

func SetNonblock(fd int, nonblocking bool) error { return nil }
func Read(fd int, p []byte) (int, error) {
	return 0, errors.New("simsyscall: read intercepted by the getch seam")
}
