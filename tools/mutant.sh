#!/bin/sh
# tools/mutant.sh <patch.diff> <check args...>: run a check against a seeded change.
# The change is applied in a scratch worktree of /repo (removed afterwards), so /repo itself is never
# touched and other checks can run meanwhile.
P="$1"; shift
W=$(mktemp -d /tmp/mutwork-XXXXXX)
rmdir "$W"
git -C /repo worktree add -q --detach "$W" HEAD || exit 3
git -C "$W" apply "$P" || { echo "PATCH DOES NOT APPLY: $P"; git -C /repo worktree remove --force "$W"; exit 3; }
VERIF_REPO="$W" /verif/check "$@" 2>&1 | grep -v "^simport\|^build" | cut -c1-500
RC=$?
git -C /repo worktree remove --force "$W"
git -C /repo worktree prune
exit $RC
