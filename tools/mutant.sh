#!/bin/sh
# tools/mutant.sh <patch.diff> <check args...>: apply a seeded change to /repo, run a check, undo it.
P="$1"; shift
git -C /repo apply "$P" || { echo "PATCH DOES NOT APPLY: $P"; exit 3; }
/verif/check "$@" 2>&1 | grep -v "^simport\|^build" | cut -c1-500
RC=$?
git -C /repo checkout -- .
exit $RC
