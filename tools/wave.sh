#!/bin/bash
# tools/wave.sh <suffix> [props...]: for every /tmp/mut/<P>.<suffix>/<k>: confirm in the scratch worktree, then run <P>'s quick check against the patch.
SUF="$1"; shift
PROPS="$*"; [ -z "$PROPS" ] && PROPS="C04 C05 C06 C07 C08 C09 C13 C14 C15 C16 C18 C20"
for P in $PROPS; do
  for D in /tmp/mut/$P.$SUF/*/; do
    D=${D%/}
    [ -f "$D/patch.diff" ] || continue
    echo "### $D"
    /verif/tools/confirm_mutant.sh /tmp/mut/$P $D
    /verif/tools/mutant.sh $D/patch.diff $P -no-shrink | grep -A1 "^VIOLATION\|^$P \|INFRA\|PATCH" | cut -c1-260
  done
done
