#!/bin/bash
# tools/confirm_mutant.sh <worktree> <mutant dir>: confirm that a seeded change (a) keeps the suite green,
# (b) its demonstration fails with the change and passes without. Prints one summary line.
WT="$1"; MD="$2"
export GOFLAGS=-mod=mod GOPROXY=off GOSUMDB=off
cd "$WT" || exit 2
git checkout -q -- . ; git clean -fdq
rundemo() {
  if [ -f "$MD/demo_test.go" ]; then
    pkg=$(grep -m1 '^package ' "$MD/demo_test.go" | awk '{print $2}')
    case "$pkg" in fzf) dir=src;; algo) dir=src/algo;; util) dir=src/util;; tui) dir=src/tui;; *) dir=src;; esac
    cp "$MD/demo_test.go" "$dir/zz_demo_test.go"
    names=$(grep -o '^func Test[A-Za-z0-9_]*' "$MD/demo_test.go" | sed 's/func //' | paste -sd'|')
    timeout 300 go test -vet=off -count=1 -run "^($names)\$" ./$dir >/tmp/confirm.$$.log 2>&1; rc=$?
    rm -f "$dir/zz_demo_test.go"
    return $rc
  else
    ROOT="$WT" timeout 300 bash "$MD/demo.sh" >/tmp/confirm.$$.log 2>&1
    return $?
  fi
}
rundemo; base=$?
git apply "$MD/patch.diff" || { echo "$MD: PATCH-FAILS"; exit 1; }
go build ./... >/dev/null 2>&1; b=$?
go test -vet=off -count=1 ./... >/tmp/confirm.$$.suite 2>&1; suite=$?
rundemo; mut=$?
git checkout -q -- . ; git clean -fdq
echo "$MD: demo_without_patch=$base build=$b suite_with_patch=$suite demo_with_patch=$mut"
rm -f /tmp/confirm.$$.*
