#!/bin/sh
# tools/sweep.sh <tier> <seed...>: run every registered check with the given base seeds; print one line per run.
TIER="$1"; shift
for S in "$@"; do
  for P in C04 C05 C06 C07 C08 C09 C13 C14 C15 C16 C18 C20; do
    OUT=$(VERIF_SEED=$S /verif/check $P --tier $TIER 2>&1)
    RC=$?
    echo "seed=$S $P rc=$RC $(echo "$OUT" | tail -1)"
    if [ $RC -ne 0 ]; then echo "$OUT" | grep -A3 "^VIOLATION\|^INFRA" | cut -c1-600; fi
  done
done
