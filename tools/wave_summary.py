#!/usr/bin/env python3
# tools/wave_summary.py <wave log>: one line per seeded change: confirmation, violation classes, summary line
import re,sys
txt=open(sys.argv[1]).read()
for b in txt.split('### ')[1:]:
    lines=b.strip().split('\n')
    name=lines[0]
    conf=[l for l in lines if 'demo_without_patch' in l]
    classes=sorted(set(re.findall(r'class=(\S+)',b)))
    summ=[l for l in lines if re.match(r'^C\d\d quick:',l)]
    other=[l for l in lines if 'PATCH' in l or 'INFRA' in l]
    print(name.replace('/tmp/mut/',''), '|', conf[0].split(': ')[1].replace('demo_without_patch','base').replace('suite_with_patch','suite').replace('demo_with_patch','mut') if conf else '?', '|', ','.join(classes) or 'NOT CAUGHT', '|', summ[-1][10:60] if summ else '', other[:1] or '')
