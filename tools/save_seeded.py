#!/usr/bin/env python3
# tools/save_seeded.py <src dir> <id> <caught_by or ''> : copy a confirmed seeded change into /verif/seeded/<id>/
import json,sys,shutil,os,glob
src,mid,caught=sys.argv[1],sys.argv[2],sys.argv[3]
confirm=sys.argv[4] if len(sys.argv)>4 else ''
dst='/verif/seeded/'+mid
os.makedirs(dst,exist_ok=True)
for f in glob.glob(src+'/*'):
    if os.path.isfile(f) and os.path.getsize(f) < 200000: shutil.copy(f,dst)
meta=json.load(open(src+'/meta.json'))
meta['id']=mid
meta['confirmed_by_me']={'how':'tools/confirm_mutant.sh in a scratch worktree at the pinned commit: demo passes without the patch; with the patch go build ok, whole suite passes, demo fails','result':confirm}
meta['caught_by']=caught if caught else 'NOT CAUGHT (yet)'
json.dump(meta,open(dst+'/meta.json','w'),indent=1)
