#!/usr/bin/env python3
# Regenerates /verif/MANIFEST.json from the table below (keeps it schema-valid).
import json
NA = [
 ("C01","matched set is a pure function of (list, query, options): no schedule, clock, fault or interleaving for a simulator to explore; the simulated pipeline checks use the matcher as a trusted component"),
 ("C02","algo.* matchers are pure functions of (text, pattern, flags, slab size); the stale-slab history dimension is decided under C05"),
 ("C03","score is a pure function of (text, pattern, scheme); needs a reference DP, not a simulator"),
 ("C10","Tokenize/Transform/ParseRange are pure functions of their arguments"),
 ("C11","extractColor/interpretCode are pure; the only state is a left fold over lines by a single producer"),
 ("C12","pure string function whose oracle is a real /bin/sh; nothing depends on timing or faults"),
 ("C17","ParseOptions is a pure function of argv/env/file"),
 ("C19","third-party fastwalk does real directory syscalls on worker goroutines; no seam for a simulated FS or scheduler; result is an order-insensitive set"),
]
CHECKS = {
 "C04": dict(design="§6 C04", technique="deterministic simulation: seeded worker/partition schedules + sequential global-sort oracle",
   text="Seeded search over (list, chunk layout incl. --tail-trimmed first chunk, partition count 1..32, sort/tac/tiebreak, query, worker schedule, lazy-merge access pattern) through the real Matcher.scan/Loop and Merger, and over whole simulated `fzf --filter` processes; every result list is compared with one sequential global sort using an independent comparator. Sampling, not enumeration.",
   note="Per-item rank key comes from the real buildResult in a sequential pass and is trusted (pure code). go1.26.8 synctest bubble; interleavings at synchronisation granularity."),
 "C05": dict(design="§6 C05", technique="deterministic simulation: adversarial scratch-slab histories and worker assignment vs isolated evaluation; sub-list runs",
   text="Seeded call histories on shared scratch slabs with injected stale contents (all-ones, max, random, natural residue), seeded item order and worker assignment, partitioned scans with pre-poisoned slabs, and whole-process list vs sub-list runs; each result is compared with an isolated evaluation (fresh item, nil slab, one goroutine).",
   note="The isolated evaluation uses the same pure matcher (trusted). Bytes-vs-runes is checked as an auxiliary differential clause; 'with/without positions' is checked only through rank keys at process level."),
 "C06": dict(design="§6 C06", technique="deterministic simulation: seeded read() cut/fault plans and reader/snapshot interleavings vs reference splitter",
   text="The real Reader.feed against a simulated stream whose read() results are cut at seeded points (1 byte .. >64 KiB, around delimiters, empty reads, read error at offset k, give-up after 100 empty reads), compared record by record with a reference splitter, plus slab-aliasing audit; whole simulated filter processes with --read0/--tail/--header-lines; loaders vs snapshots under seeded schedules.",
   note="Simulated reader follows OS read() semantics only. Windows CR trimming not exercised."),
 "C07": dict(design="§6 C07", technique="deterministic simulation of whole filter-mode processes vs framing/exit-code model",
   text="Whole simulated `fzf --filter` processes (real option parser, Run, reader, matcher or streaming path, printer) with seeded option sets, inputs, delivery cuts and schedules; stdout bytes and exit status compared with a framing model. Interactive part is added by the H-sys scenarios when present.",
   note="Field and ANSI semantics restricted to generator-known simple cases (whitespace fields, whole-word SGR wrappers); display transformation computed with the real (pure, trusted) tokenizer."),
 "C14": dict(design="§6 C14", technique="deterministic simulation with fault injection: hostile inputs/geometries/input bytes/child behaviours/signals/exit instants vs no-panic, responsiveness and exit-hygiene audits",
   text="Whole simulated interactive sessions with hostile items (wide, combining, control, invalid bytes, empty, very long), seeded option sets (layouts, borders, margins, padding, preview positions, header, --height 1..3/adaptive, wrap, gaps, multi-line), geometry from 1x1 with resize storms, input bytes = keys, mouse reports, bracketed paste, truncated CSI and arbitrary bytes split at arbitrary points with arbitrary gaps, actions execute/execute-silent/transform/reload/preview/become/ctrl-z with child processes of seeded behaviour (instant, slow, endless, failing, not startable), SIGINT/SIGTERM, tty hang-up and every way of ending at seeded instants. Checked: no panic in any goroutine; fzf exits when asked (ctrl-c probe, SIGINT in cooked mode); at the instant Run returns the simulated tty is back in cooked mode with alternate screen, mouse and paste modes off and cursor visible, no fzf-temp-* file is left in the per-run TMPDIR and no child process is alive un-killed; every byte written to the tty is understood by the VT emulator.",
   note="Children are scripts in a simulated process table (kill(2), process groups, pipes). A foreground execute child is always finite (ctrl-c would go to it, not to fzf). Responsiveness probe presses ctrl-c up to 12 times: each malformed escape sequence queued in the decoder legitimately absorbs one key press."),
 "C20": dict(design="§6 C20", technique="deterministic simulation: action timing x preview child behaviours x exit instants vs expected-request model and process-table invariants",
   text="Whole simulated interactive sessions with a preview template over {n} {q} {} {+n} (sometimes {f}); seeded histories of cursor moves, query edits, selections, refresh/toggle/change-preview, preview(...), window changes and resizes, timed inside the 100 ms / 500 ms windows of the previewer protocol; preview children of seeded behaviour (instant, slow start, incremental, endless, silent, not startable, clear-screen code early/late/repeated, failing, forking shell). Invariant at every scheduler step: at most one preview process group alive un-killed. At every settle: the argv of the command that ran last equals (ordinal, query, line, selection in order) of the state at settle and the preview pane holds what it emitted. At exit: nothing alive un-killed, no temp file left.",
   note="One-off preview(...) and hidden windows are excluded from the freshness comparison (documented one-off semantics; a command queued before the window was hidden may run to its natural end). A running command that has not produced output yet legitimately leaves the previous content in the pane."),
 "C15": dict(design="§6 C15", technique="deterministic simulation: action histories x incremental redraw x geometry vs structural screen parser over a VT emulator fed by the real renderer",
   text="Whole simulated interactive sessions in the option subset whose layout is documented precisely (layouts default/reverse/reverse-list, info default/inline/right/hidden, --header, --header-lines, --multi, unicode or ASCII glyphs, no borders/preview, full screen, --no-scrollbar; 14..100 x 6..36 with resizes) under seeded histories of typing, long queries, cursor motion, navigation, selection and toggle-header; after every action the bytes of the real LightRenderer, interpreted by the VT emulator, are parsed structurally and compared with the state at that point: prompt row, info counters, each list row in layout order (pointer on exactly the current row, marker on exactly the selected rows, complete line when it fits, otherwise a contiguous piece with the ellipsis within the width), empty rows beyond the results (stale rows of the incremental redraw), header outside the list rows, nothing past the right margin.",
   note="Scroll offsets (list and prompt) are read from the terminal and only checked for containing the cursor: which window fzf shows is its choice. Emulator implements exactly the sequences light.go emits (unknown sequence => exit 2). Wide/combining glyphs, wrapping, multi-line items, borders and preview panes are outside the exact comparison (C14 covers them for robustness)."),
 "C16": dict(design="§6 C16", technique="deterministic simulation with fault injection: request bytes x fragmentation x stalls x early close x concurrent clients x keys vs request classifier known by construction",
   text="Whole simulated interactive sessions with --listen on local / non-local addresses, with / without FZF_API_KEY, and 1..15 simulated clients (some concurrent) sending requests whose class is known by construction - valid GET (limit/offset), valid POST, bad Content-Length (missing, zero, oversize, non-numeric, negative), key absent / exact / prefix / suffix / case-variant / wrong / empty in four header spellings, wrong method/path/version, invalid or empty action list - or arbitrary bytes, with seeded fragmentation, stalls up to beyond the 10 s read timeout and early close at any byte, interleaved with keys and a process-executing binding. Every connection left open must get exactly one well-formed HTTP/1.1 response with matching Content-Length; class => status (200/400/401/503); the query must hold exactly the unique markers of the authorised valid POSTs answered 200, once each, in connection order (so rejected requests have no effect and nothing arrives twice); a final authorised GET must still be served (no wedge); a non-local address without a key must refuse to start; listeners treated as local must be bound to the loopback interface. Differential scenario c16d: the same seeded sequence of action lists is delivered to two otherwise identical sessions, as POST bodies and through keys bound to them, and after every list the two states (query, cursors, selection order, match list, sort/multi/search/prompt/header/input flags) must agree.",
   note="Requests stalled for about the read timeout may be rejected (400/401) or served. Duplicate headers and body-length mismatches are only checked for robustness. The differential POST-vs-bind clause is covered through the put() markers only; action semantics are C09's."),
 "C18": dict(design="§6 C18", technique="deterministic simulation: session/operation histories with restarts (only the file survives) vs list model",
   text="Seeded sequences of sessions over one real history file (initial content missing/empty/with or without trailing newline/longer than the limit); each session parses --history/--history-size with the real option parser, performs previous/next/edit steps and at most one submit; every returned string and the file bytes after every session are compared with a list-of-strings model.",
   note="Object level (whole interactive sessions are added by the sys scenarios). No crash-point or disk-fault injection: the property quantifies over histories only."),
 "C08": dict(design="§6 C08", technique="deterministic simulation of whole interactive sessions: seeded action histories x reader progress x scan/cancel schedules vs fresh sequential filter at settle points",
   text="Whole simulated interactive sessions (real Run coordinator, reader, matcher, Terminal, LightRenderer; simulated tty, stdin, reload child processes, clock) under seeded histories of typing, deletion, clear/change-query, toggle-sort, exclude, reload and reload-sync arriving at seeded instants relative to loading, EOF, scans and cancellations, with CPU stalls; at every settle point the match list (all entries, white-box) must equal a fresh sequential filter of (loaded input minus issued exclusions, current query, current sort flag), counts must agree, and the reload command issued last must be the one loaded. Plus Matcher.Loop alone under adversarial request sequences: the last publish answers the last request.",
   note="Settle = observable state digest stable for 3 simulated seconds with no runnable goroutine but the 100 ms spinner. Pure matcher trusted (sequential oracle uses it). While search is disabled the string in effect is the query line of the moment it was disabled."),
 "C09": dict(design="§6 C09", technique="deterministic simulation of interactive sessions: seeded action histories vs executable reference editor/cursor/selection model",
   text="Whole simulated interactive sessions over a loaded list; seeded histories (1..60 steps) of ~45 editing, navigation and selection actions bound to keys and decoded by the real input decoder, with --multi[=N], --cycle, layouts, --height, tiny windows, --no-input, --track varying per run, and in a third of the runs the input arriving in stages (feed events between the actions, with and without --tail trimming) so that selection and cursor are followed across a growing / trimmed list; after every action (or burst) the session settles and query, query cursor, list cursor, selection (in selection order) and limit read from the real Terminal are compared with a reference model written from readline/man-page semantics whose result list comes from the sequential oracle; on accept, stdout is compared with the model's selection.",
   note="Bursts without a settle relax the comparison narrowly (list-dependent actions after a query change in the same burst; cursor after several query changes) because the list fzf saw at that instant is legitimately timing-dependent; likewise the cursor after --tail trimming, after a feed racing with a query change, or where --track falls back on the scroll offset. Multi-line items, wrapping, jump mode and mouse actions are outside the exact comparison."),
 "C13": dict(design="§6 C13", technique="deterministic simulation: loaders/coordinator/matcher interleavings vs sequential filter of frozen snapshots",
   text="1-3 loader tasks push through the real ChunkList while a coordinator snapshots (with/without --tail) and issues Reset requests to the real Matcher.Loop with 1..32 partitions under seeded schedules incl. CPU stalls; every published merger must equal the sequential filter of the frozen input of a request (in request order); frozen copies must stay equal to live snapshots; cache audit; scratch-slab exclusivity. Auxiliary (scenarios racer, racefilter): the same components, and whole `fzf --filter` processes, run in pass-through mode (yields are Gosched, 4 Ps, no imposed schedule) in a worker built with -race, because the deterministic scheduler's hand-offs order every access and hide data races from the detector by construction.",
   note="The race auxiliary is not deterministic and not replayable (its report carries plan, seed and the detector's stacks; --replay re-runs the plan up to 40 times under the detector); races are classified by the two conflicting call sites. One race on the unchanged tree is a recorded known finding (ChunkList.Snapshot chunk copy vs Chars.TrimLength cache write)."),
}
# what the later waves added (appended to the level text)
ADDENDA = {
 "C07": " Later additions: --accept-nth with every form of field index expression against a reference written from the man page, print(...) queue, one:accept after cursor moves, --read0 with long records outside ASCII.",
 "C08": " Later additions: string --delimiter with --nth and records ending in delimiters; a mode aimed at the end of a reload-sync; convergence of the matcher loop alone across reloads.",
 "C09": " Later additions: replace-query, next/prev-selected, offset-up/down (bounded slack, scroll offset not modelled), lines outside ASCII, adaptive heights, sessions closed with accept-or-print-query / accept-non-empty.",
 "C13": " Later additions: a reload operation in the loop scenario (list cleared, ordinals restart, major revision, new loaders) with a mode aimed at the first searches after it; real reader/writer locks in the race auxiliary.",
 "C14": " Later additions: every bindable action is bound in some run (robustness only), commands with {f}/{+f} temporary files in reload/execute/transform, process-table audit at the instant of become, cyclic preview windows, a terminal that does not answer the cursor position request.",
 "C15": " Later additions: the --header text read as state (change-header with 0-3 lines, toggle-header also under reverse-list), --wrap (every row a contiguous piece of a result in view, pointer in view), --ellipsis / --keep-right / tabs (bounds only).",
 "C16": " Later additions: every command-running action posted to non-local listeners, a key of white space only, jump mode while POSTs arrive, half-sent bodies, bounded socket buffers with a client that does not read, differential POST-vs---bind sessions (c16d).",
 "C18": " Later additions: initial entries of up to 200 KB, --history-size taken from $FZF_DEFAULT_OPTS, sessions that end in become(...), transform-query as an edit between history steps.",
 "C20": " Later additions: action chains that restart the preview away from the cursor and come back (focus ABA), threshold layouts, lingering and redrawing commands, zero-row list windows.",
}
checks=[]
for pid,c in sorted(CHECKS.items()):
    c["text"] += ADDENDA.get(pid, "")
    checks.append({
     "property_id":pid,
     "quick_cmd":"./check %s --tier quick"%pid,
     "thorough_cmd":"./check %s --tier thorough"%pid,
     "evidence_file":"/verif/evidence/%s.json"%pid,
     "replay_cmd_template":"./check %s --replay {path}"%pid,
     "engine":"zsim",
     "level_claimed":{"category":"exploration","text":c["text"],"design_ref":c["design"]},
     "level_note":c["note"],
     "technique":c["technique"],
    })
m={
 "version":1,
 "setup_cmd":"./check build",
 "hooks":{
  "guard":"verif",
  "enable":"no hook commits in /repo: each check copies /repo's working tree to a scratch dir, /verif/simport rewrites it mechanically (sync/time/… import substitution, yields, select/mailbox ownership, seam prologues from simport/seams.json) and builds it with `go1.26.8 test -c -tags verif`; harness files carry //go:build verif",
  "baseline_off_cmd":"cd /repo && GOFLAGS=-mod=mod go test -vet=off -count=1 ./...",
  "source_commits":[],
  "add_only":True
 },
 "engines":[{"name":"zsim","path":"/verif/sim","serves_properties":sorted(CHECKS),"kind_free_text":"deterministic simulator: testing/synctest bubble (fake clock, quiescence) + seeded yield scheduler, shims for sync/time/select/mailboxes, simulated stdin; driver in /verif/cmd/verifdrv (fan-out, ddmin, replay, evidence)"}],
 "checks":checks,
 "not_applicable":[{"property_id":a,"reason":b} for a,b in NA] + [
   {"property_id":p,"reason":"claimed by DESIGN.md but its check (interactive H-sys harness) is not built yet in this commit"} for p in ["C08","C09","C14","C15","C16","C18","C20"] if p not in CHECKS],
 "notes":"exit 0 held / 1 VIOLATION / 2 infrastructure. VERIF_SEED selects the base seed. known_findings.json lists findings and fixed: records.",
}
json.dump(m,open('/verif/MANIFEST.json','w'),indent=1)
print("checks:",[c["property_id"] for c in checks])
