#!/usr/bin/env python3
# tools/save_wave.py <P> <wave> <k> <caught_by or ''> <confirm line>: save /tmp/mut/<P>.<wave>/<k> as /verif/seeded/<P>-<wave>-<k>-<slug>/
import json,sys,re,subprocess
P,W,k,caught,confirm=sys.argv[1:6]
src='/tmp/mut/%s.%s/%s'%(P,W,k)
m=json.load(open(src+'/meta.json'))
slug=re.sub(r'[^a-z0-9]+','-',m['summary'].lower()).strip('-')[:50]
mid='%s-%s-%s-%s'%(P,W,k,slug)
subprocess.check_call(['python3','/verif/tools/save_seeded.py',src,mid,caught,confirm])
print(mid)
